#!/bin/bash
# usage: tools/sweep.sh  — re-run the check(s) that catch each stored seeded change against the current tree
cd /verif
for d in seeded/*/; do
  n=$(basename $d); ID=${n%-*}; K=${n##*-}
  checks=$(jq -r '(.final_sweep.detected_by // .detected_by // []) | join(" ")' $d/meta.json)
  [ -z "$checks" ] && checks=$ID
  # prefer the property's own check when it is among the detecting ones
  case " $checks " in *" $ID "*) checks=$ID;; *) checks=$(echo $checks | cut -d' ' -f1);; esac
  SKIP_VALIDATE=1 python3 tools/seedcheck.py $ID $K $checks 2>&1 | python3 -c "
import json,sys
try:
    r=json.load(sys.stdin)
    print(r['id']+'-'+r['k'], 'applies' if r['applies'] else 'DOES-NOT-APPLY', {c:(v['exit'],v['wall_s']) for c,v in r['checks'].items()})
except Exception as e:
    print('$n', 'sweep failed', e)"
done
