#!/usr/bin/env python3
"""Validate a seeded change and run the registered checks against it.
usage: seedcheck.py <ID> <K> [check ids...]   (default check: <ID>)
"""
import json, os, re, shutil, subprocess, sys, time
ID, K = sys.argv[1], sys.argv[2]
checks = sys.argv[3:] or [ID]
# round 1 seeds live in /tmp/seedout/<ID>/ (K = 1,2), round 2 in /tmp/seed2/<ID>/ and are stored as K+2;
# a seed already stored under /verif/seeded/<ID>-<K>/ is re-validated from there.
SRCROOT = os.environ.get("SEEDSRC", "/tmp/seedout") if os.environ.get("SKIP_VALIDATE") != "1" else "/nonexistent"  # the sweep always uses the stored patch
KOUT = str(int(K) + int(os.environ.get('KOFFSET', '0')))
src = f'{SRCROOT}/{ID}'
if not os.path.exists(f'{src}/patch{K}.diff'):
    src = f'/verif/seeded/{ID}-{K}'
    patch = f'{src}/patch.diff'
    KOUT = K
else:
    patch = f'{src}/patch{K}.diff'
env = dict(os.environ, GOFLAGS='-mod=mod', GOPROXY='off', GOSUMDB='off', GOTOOLCHAIN='local')
def sh(cmd, cwd=None, timeout=1800):
    p = subprocess.run(cmd, shell=True, cwd=cwd, env=env, capture_output=True, text=True, errors="replace", timeout=timeout)
    return p.returncode, p.stdout + p.stderr
res = {'id': ID, 'k': K}
if os.environ.get('SKIP_VALIDATE') == '1':
    # final sweep: the stored change was validated before; only run the checks against it.
    assert sh('git -C /repo status --porcelain')[1].strip() == '', 'repo not clean'
    rc, out = sh(f'git -C /repo apply {patch}')
    if rc != 0:
        rc, out = sh(f'git -C /repo apply --3way {patch}')
        sh('git -C /repo reset -q')
    res['applies'] = rc == 0
    res['checks'] = {}
    try:
        if rc == 0:
            for c in checks:
                t = time.time()
                rc2, out2 = sh(f'bin/verif check {c} --tier quick', cwd='/verif')
                viol = [l for l in out2.splitlines() if l.startswith('VIOLATION')]
                first = [l for l in out2.splitlines() if l.startswith('  clause=')][:1]
                res['checks'][c] = {'exit': rc2, 'violations': len(viol), 'wall_s': round(time.time() - t, 1), 'first': [f[:300] for f in first]}
    finally:
        sh('git -C /repo checkout -- .')
        sh('git -C /repo clean -fdq')
    mp = f'/verif/seeded/{ID}-{K}/meta.json'
    if os.path.exists(mp):
        m = json.load(open(mp))
        m['final_sweep'] = {'applies': res['applies'], 'checks_run': res['checks'], 'detected_by': [c for c, r in res['checks'].items() if r['exit'] == 1]}
        json.dump(m, open(mp, 'w'), indent=1)
    print(json.dumps(res, indent=1)); sys.exit(0)
wt = f'/tmp/sv_{ID}_{KOUT}'
sh(f'git -C /repo worktree remove --force {wt}')
rc, out = sh(f'git -C /repo worktree add --detach {wt} HEAD')
assert rc == 0, out
try:
    rc, out = sh(f'git apply --3way {patch}', cwd=wt)
    if rc != 0:
        rc, out = sh(f'git apply {patch}', cwd=wt)
    res['applies'] = rc == 0
    if rc != 0:
        res['apply_error'] = out[-500:]
        print(json.dumps(res, indent=1)); sys.exit(3)
    sh('git reset -q', cwd=wt)
    rc, diff = sh('git diff', cwd=wt)
    rc, out = sh('go build ./... && go test -vet=off -count=1 ./...', cwd=wt)
    res['suite_passes_with_change'] = rc == 0
    if rc != 0: res['suite_output'] = out[-800:]
    # demo
    demo = None
    for cand in (f'{src}/demo{K}_test.go', f'{src}/demo_test.go'):
        if os.path.exists(cand): demo = cand
    if demo:
        text = open(demo).read()
        pkg = re.search(r'^package (\w+)', text, re.M).group(1)
        pkgdir = {'soy': '.', 'soy_test': '.', 'pomsg': 'soymsg/pomsg', 'pomsg_test': 'soymsg/pomsg'}.get(pkg, pkg.replace('_test', ''))
        am = {}
        for mp0 in (f'{src}/meta{K}.json',):
            if os.path.exists(mp0):
                try: am = json.load(open(mp0))
                except Exception: am = {}
        if not am and os.path.exists(f'{src}/meta.json'):
            try: am = json.load(open(f'{src}/meta.json')).get('agent_meta', {})
            except Exception: am = {}
        if am.get('demo_dir'):
            pkgdir = re.sub(r'^/?tmp/wt\d+/' + ID, '', am['demo_dir'].strip('/')).strip('/') or '.'
        raceflag = '-race ' if am.get('demo_failure_mode') == 'race' else ''
        tests = re.findall(r'^func (Test\w+)\(', text, re.M)
        os.makedirs(os.path.join(wt, pkgdir), exist_ok=True)
        dst = os.path.join(wt, pkgdir, f'zz_demo{K}_test.go')
        shutil.copy(demo, dst)
        runre = '^(' + '|'.join(tests) + ')$'
        rc1, o1 = sh(f"go test {raceflag}-timeout 120s -vet=off -count=1 -run '{runre}' ./{pkgdir}", cwd=wt)
        res['demo_fails_with_change'] = rc1 != 0
        sh('git checkout -- .', cwd=wt)
        if not os.path.exists(dst):
            os.makedirs(os.path.dirname(dst), exist_ok=True); shutil.copy(demo, dst)
        rc2, o2 = sh(f"go test {raceflag}-timeout 120s -vet=off -count=1 -run '{runre}' ./{pkgdir}", cwd=wt)
        res['demo_passes_without_change'] = rc2 == 0
        if rc2 != 0: res['demo_clean_output'] = o2[-600:]
    else:
        res['demo'] = 'no demo file found'
finally:
    sh(f'git -C /repo worktree remove --force {wt}')
# run my checks against /repo with the change applied
assert sh('git -C /repo status --porcelain')[1].strip() == '', 'repo not clean'
open('/tmp/seed_cur.diff', 'w').write(diff)
rc, out = sh('git -C /repo apply /tmp/seed_cur.diff')
assert rc == 0, out
res['checks'] = {}
try:
    for c in checks:
        t = time.time()
        rc, out = sh(f'bin/verif check {c} --tier quick', cwd='/verif')
        viol = [l for l in out.splitlines() if l.startswith('VIOLATION')]
        first = [l for l in out.splitlines() if l.startswith('  clause=') or l.startswith('  input=') or l.startswith('  observed=')][:3]
        res['checks'][c] = {'exit': rc, 'violations': len(viol), 'wall_s': round(time.time() - t, 1), 'first': [f[:300] for f in first], 'tail': out.splitlines()[-1][:300] if out else ''}
finally:
    sh('git -C /repo checkout -- .')
outdir = f'/verif/seeded/{ID}-{KOUT}'
os.makedirs(outdir, exist_ok=True)
open(f'{outdir}/patch.diff', 'w').write(diff)
if demo and not demo.startswith(outdir): shutil.copy(demo, f'{outdir}/demo_test.go')
meta = {}
mp = f'{src}/meta{K}.json'
if os.path.exists(mp):
    try: meta = json.load(open(mp))
    except Exception as e: meta = {'raw_meta_error': str(e)}
elif os.path.exists(f'{outdir}/meta.json'):
    meta = json.load(open(f'{outdir}/meta.json')).get('agent_meta', {})
json.dump({'property': ID, 'agent_meta': meta, 'validated': {k: v for k, v in res.items() if k != 'checks'}, 'checks_run': res['checks'],
           'detected_by': [c for c, r in res['checks'].items() if r['exit'] == 1]}, open(f'{outdir}/meta.json', 'w'), indent=1)
print(json.dumps(res, indent=1))
