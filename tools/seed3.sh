#!/bin/bash
# usage: tools/seed3.sh <ID> [checks...]  — validate both round-3 seeds of a property
ID=$1; shift
for k in 1 2; do
  SEEDSRC=${SEEDSRC:-/tmp/seed3} KOFFSET=${KOFFSET:-4} python3 /verif/tools/seedcheck.py $ID $k "$@" 2>&1 | python3 -c "
import json,sys
try:
    r=json.load(sys.stdin)
except Exception as e:
    print('seedcheck failed', e); sys.exit(0)
print(r['id'],r['k'],{k:v for k,v in r.items() if k not in('checks','id','k')})
for c,v in r.get('checks',{}).items(): print('   ',c,v['exit'],v['violations'],v['wall_s'],v['first'][:1])"
done
