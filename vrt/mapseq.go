package vrt

import (
	"fmt"
	"iter"
	"reflect"
	"runtime/debug"
	"sort"
	"strings"
)

func stack() string {
	s := string(debug.Stack())
	if len(s) > 4000 {
		s = s[:4000]
	}
	return s
}

type sortKey struct {
	class int
	i     int64
	s     string
}

func keyOf(k any) sortKey {
	v := reflect.ValueOf(k)
	if !v.IsValid() {
		return sortKey{class: 0}
	}
	switch v.Kind() {
	case reflect.String:
		return sortKey{class: 1, s: v.String()}
	case reflect.Int, reflect.Int8, reflect.Int16, reflect.Int32, reflect.Int64:
		return sortKey{class: 2, i: v.Int()}
	case reflect.Uint, reflect.Uint8, reflect.Uint16, reflect.Uint32, reflect.Uint64:
		return sortKey{class: 2, i: int64(v.Uint())}
	case reflect.Bool:
		if v.Bool() {
			return sortKey{class: 2, i: 1}
		}
		return sortKey{class: 2, i: 0}
	}
	// nodes: order by source position, then by printed form.
	var pos int64
	if m := v.MethodByName("Position"); m.IsValid() && m.Type().NumIn() == 0 && m.Type().NumOut() == 1 {
		out := m.Call(nil)[0]
		if out.CanInt() {
			pos = out.Int()
		}
	}
	s := ""
	func() {
		defer func() { recover() }()
		if st, ok := k.(fmt.Stringer); ok {
			s = st.String()
		} else {
			s = fmt.Sprintf("%T:%v", k, k)
		}
	}()
	return sortKey{class: 3, i: pos, s: fmt.Sprintf("%T|", k) + s}
}

func less(a, b sortKey) bool {
	if a.class != b.class {
		return a.class < b.class
	}
	if a.i != b.i {
		return a.i < b.i
	}
	return a.s < b.s
}

// MapSites counts iterations started per site kind (diagnostics).
var MapRanges int64

// MapSeq iterates over m in an order owned by the explorer: canonical (sorted)
// by default; when Options.MapChoice is set every permutation is reachable
// through Choose, each non-canonical position costing one deviation.
func MapSeq[K comparable, V any](m map[K]V) iter.Seq2[K, V] {
	return func(yield func(K, V) bool) {
		if len(m) == 0 {
			return
		}
		keys := make([]K, 0, len(m))
		for k := range m {
			keys = append(keys, k)
		}
		if len(keys) > 1 {
			sk := make([]sortKey, len(keys))
			idx := make([]int, len(keys))
			for i, k := range keys {
				sk[i] = keyOf(k)
				idx[i] = i
			}
			sort.SliceStable(idx, func(a, b int) bool { return less(sk[idx[a]], sk[idx[b]]) })
			sorted := make([]K, len(keys))
			for i, j := range idx {
				sorted[i] = keys[j]
			}
			keys = sorted
			if e := cur; e != nil && e.opt.MapChoice {
				MapRanges++
				rest := keys
				perm := make([]K, 0, len(keys))
				for len(rest) > 1 {
					p := Choose(len(rest), "map", nil)
					perm = append(perm, rest[p])
					nr := make([]K, 0, len(rest)-1)
					nr = append(nr, rest[:p]...)
					nr = append(nr, rest[p+1:]...)
					rest = nr
				}
				perm = append(perm, rest[0])
				keys = perm
			}
		}
		for _, k := range keys {
			v, ok := m[k]
			if !ok {
				continue // deleted during iteration
			}
			if !yield(k, v) {
				return
			}
		}
	}
}

// Package-level variable registry ------------------------------------------

type Var struct {
	Name string
	Ptr  any // pointer to the variable
}

var vars []Var

// RegisterVar records the address of a package-level variable of an
// instrumented package.
func RegisterVar(name string, ptr any) { vars = append(vars, Var{name, ptr}) }

// Vars returns the registered variables sorted by name.
func Vars() []Var {
	out := append([]Var(nil), vars...)
	sort.Slice(out, func(i, j int) bool { return out[i].Name < out[j].Name })
	return out
}

// Instrumented reports whether any instrumented package is linked in.
func Instrumented() bool { return len(vars) > 0 || instrumented }

var instrumented bool

// MarkInstrumented is called from generated init code.
func MarkInstrumented(pkg string) {
	instrumented = true
	pkgs = append(pkgs, pkg)
}

var pkgs []string

func Packages() string { sort.Strings(pkgs); return strings.Join(pkgs, ",") }
