// Package vsync stands in for package sync in the instrumented build of the code under test:
// inside a vrt execution every operation is a scheduling point of the controlled scheduler and
// blocking is logical (the thread is parked and another one runs); outside an execution the
// real primitives are used.  The instrumenter rewrites `import "sync"` to this package.
package vsync

import (
	"sync"

	"verif/vrt"
)

type Locker = sync.Locker

// Mutex is sync.Mutex.
type Mutex struct {
	real sync.Mutex
	held bool
}

func (m *Mutex) Lock() {
	if !vrt.Active() {
		m.real.Lock()
		return
	}
	vrt.Yield("mutex lock")
	for m.held {
		vrt.Block(m, "mutex lock")
	}
	m.held = true
	vrt.SyncOp(+1)
}

func (m *Mutex) TryLock() bool {
	if !vrt.Active() {
		return m.real.TryLock()
	}
	vrt.Yield("mutex trylock")
	if m.held {
		vrt.SyncOp(0)
		return false
	}
	m.held = true
	vrt.SyncOp(+1)
	return true
}

func (m *Mutex) Unlock() {
	if !vrt.Active() {
		m.real.Unlock()
		return
	}
	if !m.held {
		panic("sync: unlock of unlocked mutex")
	}
	m.held = false
	vrt.SyncOp(-1)
	vrt.Wake(m, 0)
	vrt.Yield("mutex unlock")
}

// RWMutex is sync.RWMutex (no writer preference: a model of its safety, not of its fairness).
type RWMutex struct {
	real    sync.RWMutex
	readers int
	writer  bool
}

func (m *RWMutex) Lock() {
	if !vrt.Active() {
		m.real.Lock()
		return
	}
	vrt.Yield("rwmutex lock")
	for m.writer || m.readers > 0 {
		vrt.Block(m, "rwmutex lock")
	}
	m.writer = true
	vrt.SyncOp(+1)
}

func (m *RWMutex) Unlock() {
	if !vrt.Active() {
		m.real.Unlock()
		return
	}
	if !m.writer {
		panic("sync: Unlock of unlocked RWMutex")
	}
	m.writer = false
	vrt.SyncOp(-1)
	vrt.Wake(m, 0)
	vrt.Yield("rwmutex unlock")
}

func (m *RWMutex) RLock() {
	if !vrt.Active() {
		m.real.RLock()
		return
	}
	vrt.Yield("rwmutex rlock")
	for m.writer {
		vrt.Block(m, "rwmutex rlock")
	}
	m.readers++
	vrt.SyncOp(+1)
}

func (m *RWMutex) RUnlock() {
	if !vrt.Active() {
		m.real.RUnlock()
		return
	}
	if m.readers <= 0 {
		panic("sync: RUnlock of unlocked RWMutex")
	}
	m.readers--
	vrt.SyncOp(-1)
	vrt.Wake(m, 0)
	vrt.Yield("rwmutex runlock")
}

func (m *RWMutex) TryLock() bool {
	if !vrt.Active() {
		return m.real.TryLock()
	}
	vrt.Yield("rwmutex trylock")
	if m.writer || m.readers > 0 {
		vrt.SyncOp(0)
		return false
	}
	m.writer = true
	vrt.SyncOp(+1)
	return true
}

func (m *RWMutex) TryRLock() bool {
	if !vrt.Active() {
		return m.real.TryRLock()
	}
	vrt.Yield("rwmutex tryrlock")
	if m.writer {
		vrt.SyncOp(0)
		return false
	}
	m.readers++
	vrt.SyncOp(+1)
	return true
}

type rlocker RWMutex

func (r *rlocker) Lock()   { (*RWMutex)(r).RLock() }
func (r *rlocker) Unlock() { (*RWMutex)(r).RUnlock() }

func (m *RWMutex) RLocker() Locker { return (*rlocker)(m) }

// Once is sync.Once.
type Once struct {
	m    Mutex
	done bool
}

func (o *Once) Do(f func()) {
	if vrt.Active() {
		vrt.Yield("once")
		vrt.SyncOp(0)
	}
	if o.done && vrt.Active() {
		return
	}
	o.m.Lock()
	defer o.m.Unlock()
	if !o.done {
		defer func() { o.done = true }()
		f()
	}
}

func OnceFunc(f func()) func() {
	var o Once
	return func() { o.Do(f) }
}

// WaitGroup is sync.WaitGroup.
type WaitGroup struct {
	real sync.WaitGroup
	n    int
}

func (w *WaitGroup) Add(d int) {
	if !vrt.Active() {
		w.real.Add(d)
		return
	}
	vrt.Yield("waitgroup add")
	w.n += d
	vrt.SyncOp(0)
	if w.n < 0 {
		panic("sync: negative WaitGroup counter")
	}
	if w.n == 0 {
		vrt.Wake(w, 0)
	}
}

func (w *WaitGroup) Done() { w.Add(-1) }

func (w *WaitGroup) Wait() {
	if !vrt.Active() {
		w.real.Wait()
		return
	}
	vrt.Yield("waitgroup wait")
	for w.n > 0 {
		vrt.Block(w, "waitgroup wait")
	}
	vrt.SyncOp(0)
}

// Cond is sync.Cond.
type Cond struct {
	L    Locker
	real *sync.Cond
}

func NewCond(l Locker) *Cond { return &Cond{L: l, real: sync.NewCond(l)} }

func (c *Cond) Wait() {
	if !vrt.Active() {
		c.real.Wait()
		return
	}
	c.L.Unlock()
	vrt.Block(c, "cond wait")
	c.L.Lock()
}

func (c *Cond) Signal() {
	if !vrt.Active() {
		c.real.Signal()
		return
	}
	vrt.SyncOp(0)
	vrt.Wake(c, 1)
	vrt.Yield("cond signal")
}

func (c *Cond) Broadcast() {
	if !vrt.Active() {
		c.real.Broadcast()
		return
	}
	vrt.SyncOp(0)
	vrt.Wake(c, 0)
	vrt.Yield("cond broadcast")
}

// Pool is sync.Pool with a deterministic policy: one shared last-in-first-out free list (the
// real pool's per-P caches and GC-driven drops are scheduling- and time-dependent; the model
// keeps the behaviour every caller must tolerate anyway: Get may return any value Put earlier,
// by any thread, or a New one).
type Pool struct {
	New   func() any
	real  sync.Pool
	items []any
}

func (p *Pool) Get() any {
	if !vrt.Active() {
		if v := p.real.Get(); v != nil {
			return v
		}
		if p.New != nil {
			return p.New()
		}
		return nil
	}
	vrt.Yield("pool get")
	vrt.SyncOp(0)
	if n := len(p.items); n > 0 {
		v := p.items[n-1]
		p.items = p.items[:n-1]
		return v
	}
	if p.New != nil {
		return p.New()
	}
	return nil
}

func (p *Pool) Put(v any) {
	if !vrt.Active() {
		p.real.Put(v)
		return
	}
	if v == nil {
		return
	}
	p.items = append(p.items, v)
	vrt.SyncOp(0)
	vrt.Yield("pool put")
}

// Map is sync.Map.
type Map struct {
	mu   sync.Mutex
	m    map[any]any
	keys []any // insertion order, so that Range is deterministic
}

func (m *Map) op(site string) func() {
	if vrt.Active() {
		vrt.Yield(site)
		vrt.SyncOp(0)
		return func() {}
	}
	m.mu.Lock()
	return m.mu.Unlock
}

func (m *Map) Load(k any) (any, bool) {
	defer m.op("map load")()
	v, ok := m.m[k]
	return v, ok
}

func (m *Map) storeLocked(k, v any) {
	if m.m == nil {
		m.m = map[any]any{}
	}
	if _, ok := m.m[k]; !ok {
		m.keys = append(m.keys, k)
	}
	m.m[k] = v
}

func (m *Map) deleteLocked(k any) {
	if _, ok := m.m[k]; ok {
		delete(m.m, k)
		for i, kk := range m.keys {
			if kk == k {
				m.keys = append(m.keys[:i:i], m.keys[i+1:]...)
				break
			}
		}
	}
}

func (m *Map) Store(k, v any) {
	defer m.op("map store")()
	m.storeLocked(k, v)
}

func (m *Map) LoadOrStore(k, v any) (any, bool) {
	defer m.op("map loadorstore")()
	if old, ok := m.m[k]; ok {
		return old, true
	}
	m.storeLocked(k, v)
	return v, false
}

func (m *Map) LoadAndDelete(k any) (any, bool) {
	defer m.op("map loadanddelete")()
	v, ok := m.m[k]
	m.deleteLocked(k)
	return v, ok
}

func (m *Map) Delete(k any) {
	defer m.op("map delete")()
	m.deleteLocked(k)
}

func (m *Map) Swap(k, v any) (any, bool) {
	defer m.op("map swap")()
	old, ok := m.m[k]
	m.storeLocked(k, v)
	return old, ok
}

func (m *Map) CompareAndSwap(k, old, new any) bool {
	defer m.op("map cas")()
	if cur, ok := m.m[k]; ok && cur == old {
		m.m[k] = new
		return true
	}
	return false
}

func (m *Map) CompareAndDelete(k, old any) bool {
	defer m.op("map cad")()
	if cur, ok := m.m[k]; ok && cur == old {
		m.deleteLocked(k)
		return true
	}
	return false
}

func (m *Map) Range(f func(k, v any) bool) {
	done := m.op("map range")
	keys := append([]any(nil), m.keys...)
	vals := make([]any, len(keys))
	for i, k := range keys {
		vals[i] = m.m[k]
	}
	done()
	for i, k := range keys {
		if !f(k, vals[i]) {
			return
		}
	}
}
