// Package vrt is the verification runtime that the instrumented copy of
// robfig/soy is linked against.  It provides
//
//   - Tick: deterministic fuel (replaces "did it hang?" wall-clock oracles) and,
//     optionally, scheduler yield points;
//   - Go/Send/Recv/RecvOK/Close: logical threads and unbuffered channels under a
//     controlled, cooperative scheduler (one thread runs at a time);
//   - MapSeq: map iteration whose order is an explorer choice;
//   - Choose: the single source of nondeterminism, driven by the explorer;
//   - RegisterVar: addresses of package-level variables of the instrumented
//     packages, for state digests.
//
// Exactly one execution (Run) is active per process at a time.  Outside of
// Run every shim falls back to the native Go operation so that package
// initialisation and helper code keep working.
package vrt

import (
	"fmt"
	"reflect"
	"runtime"
	"sync"
	"sync/atomic"
	"time"
)

// nativeActive counts goroutines started through Go outside any execution.
var nativeActive atomic.Int64

// Abort is the sentinel panic value used to unwind every logical thread of an
// execution that was aborted (fuel exhausted, deadlock, end of execution).  It
// implements error because soy's own recover handlers assert e.(error).
type Abort struct{ Reason string }

func (a *Abort) Error() string { return "vrt: execution aborted: " + a.Reason }

// Verdict summarises one execution.
type Verdict struct {
	Ticks       int64
	Exhausted   bool     // fuel limit exceeded
	Deadlock    bool     // main thread blocked and nothing enabled
	Leaked      int      // threads still blocked after main returned and all others ran to quiescence
	LeakSites   []string // what the leaked threads were blocked on
	Threads     int      // threads created (excluding main)
	Panic       any      // non-sentinel panic that escaped the body on the main thread
	PanicStack  string
	Choices     []Choice // choice points taken, in order
	Events      []string
	Preempts    int
	ExhaustSite string // function that consumed the last unit of fuel
}

// Choice is one recorded choice point.
type Choice struct {
	N      int    // number of alternatives
	Picked int    // alternative taken
	Kind   string // "sched", "map", "fault", ...
	Cost   []int8 // deviation cost of each alternative (len N)
}

// Options configure one execution.
type Options struct {
	Fuel       int64 // tick limit (0 = 1<<40)
	Prefix     []int // choices to replay; afterwards alternative 0 is taken
	YieldTick  bool  // Tick sites are scheduler yield points
	YieldMod   int   // with YieldTick: only every YieldMod-th tick of each thread is a yield point (0/1 = every tick)
	MapChoice  bool  // MapSeq order is a choice (else canonical)
	FixedSched bool  // scheduling points always take the canonical alternative and are not recorded as choices
	// OnYield, if set, is called at every scheduling point before the choice
	// (used for shared-state digests in solo runs).
	OnYield func(site string)
}

type tstate int

const (
	tRunnable tstate = iota
	tBlocked
	tDone
)

type thread struct {
	id      int
	state   tstate
	gate    chan struct{}
	blockOn string
	ticks   int
	locks   int // shim locks held (ticks inside a critical section are always yield points)
	// rendezvous payload
	val any
	ok  bool
}

type chanState struct {
	closed bool
	cap    int   // logical buffer slots (cap(ch) of the real channel, which is never used)
	buf    []any // buffered values, oldest first
	sendq  []*waiter
	recvq  []*waiter
}

type exec struct {
	mu       sync.Mutex
	opt      Options
	ticks    int64
	limit    int64
	dead     bool
	reason   string
	threads  []*thread
	cur      *thread
	chans    map[any]*chanState
	v        Verdict
	pos      int // index into Prefix
	wg       sync.WaitGroup
	diverged string
	// shims
	waiters   map[any][]*thread
	syncOps   int64
	lockDepth int
}

var cur *exec // the active execution (nil outside Run)

// Active reports whether an execution is in progress.
func Active() bool { return cur != nil }

// InfraError is panicked (not as *Abort) when replay diverges: nondeterminism
// that the runtime does not own.
type InfraError struct{ Msg string }

func (e InfraError) Error() string { return "vrt infrastructure error: " + e.Msg }

// Run executes body as logical thread 0 under the controlled scheduler.
func Run(opt Options, body func()) (v Verdict) {
	if cur != nil {
		panic("vrt.Run: nested execution")
	}
	for i := 0; nativeActive.Load() > 0 && i < 2000; i++ {
		if i < 100 {
			runtime.Gosched()
		} else {
			time.Sleep(time.Millisecond)
		}
	}
	e := &exec{opt: opt, limit: opt.Fuel, chans: map[any]*chanState{}}
	if e.limit == 0 {
		e.limit = 1 << 40
	}
	t0 := &thread{id: 0, gate: make(chan struct{}, 1)}
	e.threads = []*thread{t0}
	e.cur = t0
	cur = e
	func() {
		defer func() {
			if r := recover(); r != nil {
				if _, ok := r.(*Abort); ok {
					return
				}
				if ie, ok := r.(InfraError); ok {
					e.diverged = ie.Msg
					return
				}
				e.v.Panic = r
				e.v.PanicStack = stack()
			}
		}()
		body()
	}()
	// main finished (or aborted): drive the remaining threads to quiescence.
	e.mu.Lock()
	t0.state = tDone
	if !e.dead {
		e.quiesceLocked(t0)
	}
	if !e.dead {
		for _, t := range e.threads {
			if t.state == tBlocked {
				e.v.Leaked++
				e.v.LeakSites = append(e.v.LeakSites, t.blockOn)
			}
		}
	}
	e.abortLocked("end of execution")
	e.mu.Unlock()
	e.wg.Wait()
	cur = nil
	e.v.Ticks = e.ticks
	e.v.Threads = len(e.threads) - 1
	if e.diverged != "" {
		panic(InfraError{e.diverged})
	}
	return e.v
}

// quiesceLocked runs all runnable threads (other than main, which is done)
// until none is enabled.  Called with e.mu held by main.
func (e *exec) quiesceLocked(t0 *thread) {
	for !e.dead {
		en := e.enabledLocked()
		if len(en) == 0 {
			return
		}
		next := en[e.chooseLocked(len(en), "sched", nil)]
		e.cur = next
		next.gate <- struct{}{}
		e.mu.Unlock()
		<-t0.gate // woken when nothing else can run, or on abort
		e.mu.Lock()
	}
}

func (e *exec) enabledLocked() []*thread {
	var en []*thread
	// canonical order: the running thread first if still runnable, then ascending ids.
	if e.cur != nil && e.cur.state == tRunnable {
		en = append(en, e.cur)
	}
	for _, t := range e.threads {
		if t != e.cur && t.state == tRunnable {
			en = append(en, t)
		}
	}
	return en
}

// chooseLocked is the single point where nondeterminism enters.
func (e *exec) chooseLocked(n int, kind string, cost []int8) int {
	if n <= 1 {
		return 0
	}
	if kind == "sched" && e.opt.FixedSched {
		return 0
	}
	pick := 0
	if e.pos < len(e.opt.Prefix) {
		pick = e.opt.Prefix[e.pos]
		if pick < 0 || pick >= n {
			e.diverged = fmt.Sprintf("replay divergence at choice %d: alternative %d of %d (%s)", e.pos, pick, n, kind)
			e.abortLocked("divergence")
			panic(InfraError{e.diverged})
		}
	}
	e.pos++
	if cost == nil {
		cost = make([]int8, n)
		for i := 1; i < n; i++ {
			cost[i] = 1
		}
	}
	e.v.Choices = append(e.v.Choices, Choice{N: n, Picked: pick, Kind: kind, Cost: cost})
	return pick
}

// Choose asks the explorer for one of n alternatives (0 = default).  cost[i] is
// the deviation cost of alternative i (nil: 0 for the default, 1 otherwise).
func Choose(n int, kind string, cost []int8) int {
	e := cur
	if e == nil {
		return 0
	}
	e.mu.Lock()
	if e.dead {
		e.mu.Unlock()
		panic(&Abort{e.reason})
	}
	defer e.mu.Unlock()
	return e.chooseLocked(n, kind, cost)
}

func (e *exec) abortLocked(reason string) {
	if e.dead {
		return
	}
	e.dead = true
	e.reason = reason
	for _, t := range e.threads {
		select {
		case t.gate <- struct{}{}:
		default:
		}
	}
}

// Event records a named observation of the instrumented code.
func Event(name string) {
	e := cur
	if e == nil {
		return
	}
	e.mu.Lock()
	e.v.Events = append(e.v.Events, name)
	e.mu.Unlock()
}

// Tick consumes one unit of fuel.  Instrumented at every function entry and
// at the top of every loop body.
func Tick() {
	e := cur
	if e == nil {
		return
	}
	if e.opt.YieldTick {
		if e.opt.YieldMod > 1 {
			e.mu.Lock()
			me := e.cur
			y := false
			if me != nil {
				me.ticks++
				// critical sections are short and are where an ill-timed switch matters: every
				// instrumented point inside one is a yield point whatever the thinning.
				y = me.ticks%e.opt.YieldMod == 0 || me.locks > 0
			}
			e.mu.Unlock()
			if y {
				e.yield("tick")
			}
		} else {
			e.yield("tick")
		}
	}
	e.mu.Lock()
	if e.dead {
		e.mu.Unlock()
		panic(&Abort{e.reason})
	}
	e.ticks++
	if e.ticks > e.limit {
		e.v.Exhausted = true
		if pc, _, _, ok := runtime.Caller(1); ok {
			if f := runtime.FuncForPC(pc); f != nil {
				e.v.ExhaustSite = f.Name()
			}
		}
		e.abortLocked("fuel exhausted")
		e.mu.Unlock()
		panic(&Abort{"fuel exhausted"})
	}
	e.mu.Unlock()
}

// Yield is an explicit scheduling point (used by harness bodies).
func Yield(site string) {
	if e := cur; e != nil {
		e.yield(site)
	}
}

// yield is a scheduling point: the running thread stays enabled; switching
// away from it costs one preemption.
func (e *exec) yield(site string) {
	if e.opt.OnYield != nil {
		e.opt.OnYield(site)
	}
	e.mu.Lock()
	if e.dead {
		e.mu.Unlock()
		panic(&Abort{e.reason})
	}
	me := e.cur
	en := e.enabledLocked()
	if len(en) <= 1 {
		e.mu.Unlock()
		return
	}
	pick := e.chooseLocked(len(en), "sched", nil) // alt 0 = keep running: cost 0; others: 1 preemption
	next := en[pick]
	if next == me {
		e.mu.Unlock()
		return
	}
	e.v.Preempts++
	e.cur = next
	next.gate <- struct{}{}
	e.mu.Unlock()
	e.park(me)
}

// park waits until the thread is scheduled again.
func (e *exec) park(me *thread) {
	<-me.gate
	e.mu.Lock()
	dead := e.dead
	reason := e.reason
	e.mu.Unlock()
	if dead {
		panic(&Abort{reason})
	}
}

// blockLocked marks the running thread blocked and hands the baton to another
// enabled thread.  Called with e.mu held; returns with e.mu released after the
// thread has been rescheduled.
func (e *exec) blockLocked(me *thread, on string) {
	me.state = tBlocked
	me.blockOn = on
	e.switchAwayLocked(me)
}

func (e *exec) switchAwayLocked(me *thread) {
	en := e.enabledLocked()
	if len(en) == 0 {
		t0 := e.threads[0]
		if t0.state == tDone {
			// main is waiting in quiesce: wake it.
			e.cur = nil
			select {
			case t0.gate <- struct{}{}:
			default:
			}
			e.mu.Unlock()
			e.park(me)
			return
		}
		e.v.Deadlock = true
		e.abortLocked("deadlock")
		e.mu.Unlock()
		panic(&Abort{"deadlock"})
	}
	// at a blocking switch the canonical successor (lowest thread id) is free; choosing another
	// enabled thread counts as one deviation (otherwise every blocking operation of a program with
	// three or more threads would double the schedule space regardless of the bound).
	next := en[e.chooseLocked(len(en), "sched", nil)]
	e.cur = next
	next.gate <- struct{}{}
	e.mu.Unlock()
	e.park(me)
}

// Go starts f as a new logical thread.
func Go(f func()) {
	e := cur
	if e == nil {
		// outside an execution: a native goroutine.  Run waits for these to finish
		// before it starts, so that they never observe an execution they do not belong to.
		nativeActive.Add(1)
		go func() {
			defer nativeActive.Add(-1)
			f()
		}()
		return
	}
	e.mu.Lock()
	if e.dead {
		e.mu.Unlock()
		panic(&Abort{e.reason})
	}
	t := &thread{id: len(e.threads), gate: make(chan struct{}, 1)}
	e.threads = append(e.threads, t)
	e.wg.Add(1)
	e.mu.Unlock()
	go func() {
		defer e.wg.Done()
		defer func() {
			r := recover()
			e.mu.Lock()
			t.state = tDone
			if r != nil {
				if _, ok := r.(*Abort); !ok && !e.dead {
					// a real panic in a non-main goroutine would crash the process.
					e.v.Panic = fmt.Sprintf("panic in goroutine %d: %v", t.id, r)
					e.v.PanicStack = stack()
					e.abortLocked("goroutine panic")
				}
			}
			if e.dead {
				e.mu.Unlock()
				return
			}
			// thread exit: hand the baton on.
			en := e.enabledLocked()
			if len(en) == 0 {
				t0 := e.threads[0]
				e.cur = nil
				if t0.state != tDone {
					e.v.Deadlock = true
					e.abortLocked("deadlock")
				} else {
					select {
					case t0.gate <- struct{}{}:
					default:
					}
				}
				e.mu.Unlock()
				return
			}
			next := en[e.chooseLocked(len(en), "sched", nil)]
			e.cur = next
			next.gate <- struct{}{}
			e.mu.Unlock()
		}()
		// wait to be scheduled for the first time.
		<-t.gate
		e.mu.Lock()
		dead := e.dead
		e.mu.Unlock()
		if dead {
			return
		}
		f()
	}()
	// thread creation is a scheduling point.
	e.yield("go")
}

func (e *exec) chanLocked(ch any, capacity int) *chanState {
	cs := e.chans[ch]
	if cs == nil {
		cs = &chanState{cap: capacity}
		e.chans[ch] = cs
	}
	return cs
}

// waiter is a thread parked on one channel operation: a plain send or receive, or one case of
// a select (then sel is shared by all its cases and the first partner to arrive completes it).
type waiter struct {
	t   *thread
	sel *selWait
	idx int // case index within the select
	val any // value offered (send waiters)
}

type selWait struct {
	done   bool
	idx    int
	val    any
	ok     bool
	closed bool // a send case was completed by close(ch): the select panics like a send
}

func (w *waiter) stale() bool { return w.sel != nil && w.sel.done }

func popLive(q *[]*waiter) *waiter {
	for len(*q) > 0 {
		w := (*q)[0]
		*q = (*q)[1:]
		if !w.stale() {
			return w
		}
	}
	return nil
}

func hasLive(q []*waiter) bool {
	for _, w := range q {
		if !w.stale() {
			return true
		}
	}
	return false
}

// deliver completes a receive waiter with (v, ok).
func deliver(w *waiter, v any, ok bool) {
	if w.sel != nil {
		w.sel.done, w.sel.idx, w.sel.val, w.sel.ok = true, w.idx, v, ok
	} else {
		w.t.val, w.t.ok = v, ok
	}
	w.t.state = tRunnable
}

// release completes a send waiter: its value was taken (ok) or the channel was closed (!ok).
func release(w *waiter, ok bool) {
	if w.sel != nil {
		w.sel.done, w.sel.idx, w.sel.closed = true, w.idx, !ok
	} else {
		w.t.ok = ok
	}
	w.t.state = tRunnable
}

// trySendLocked performs a send if it can proceed without blocking.
func (cs *chanState) trySendLocked(v any) bool {
	if cs.closed {
		panic("send on closed channel")
	}
	if r := popLive(&cs.recvq); r != nil {
		deliver(r, v, true)
		return true
	}
	if len(cs.buf) < cs.cap {
		cs.buf = append(cs.buf, v)
		return true
	}
	return false
}

// tryRecvLocked performs a receive if it can proceed without blocking.
func (cs *chanState) tryRecvLocked() (v any, ok, done bool) {
	if len(cs.buf) > 0 {
		v = cs.buf[0]
		cs.buf = cs.buf[1:]
		if s := popLive(&cs.sendq); s != nil {
			cs.buf = append(cs.buf, s.val)
			release(s, true)
		}
		return v, true, true
	}
	if s := popLive(&cs.sendq); s != nil {
		v = s.val
		release(s, true)
		return v, true, true
	}
	if cs.closed {
		return nil, false, true
	}
	return nil, false, false
}

// Send is ch <- v (unbuffered and buffered channels; the logical buffer has cap(ch) slots).
func Send[T any](ch chan T, v T) {
	e := cur
	if e == nil {
		ch <- v
		return
	}
	if ch == nil {
		e.blockForever("send on nil channel")
	}
	e.yield("send")
	e.mu.Lock()
	if e.dead {
		e.mu.Unlock()
		panic(&Abort{e.reason})
	}
	me := e.cur
	cs := e.chanLocked(ch, cap(ch))
	sent := false
	func() {
		defer func() {
			if r := recover(); r != nil {
				e.mu.Unlock()
				panic(r)
			}
		}()
		sent = cs.trySendLocked(v)
	}()
	if sent {
		e.mu.Unlock()
		return
	}
	cs.sendq = append(cs.sendq, &waiter{t: me, val: v})
	me.ok = true
	e.blockLocked(me, "chan send")
	if !me.ok {
		panic("send on closed channel")
	}
}

// RecvOK is v, ok := <-ch.
func RecvOK[T any](ch chan T) (T, bool) {
	e := cur
	if e == nil {
		v, ok := <-ch
		return v, ok
	}
	if ch == nil {
		e.blockForever("receive from nil channel")
	}
	e.yield("recv")
	e.mu.Lock()
	if e.dead {
		e.mu.Unlock()
		panic(&Abort{e.reason})
	}
	me := e.cur
	cs := e.chanLocked(ch, cap(ch))
	var zero T
	if v, ok, done := cs.tryRecvLocked(); done {
		e.mu.Unlock()
		if !ok {
			return zero, false
		}
		tv, _ := v.(T)
		return tv, true
	}
	cs.recvq = append(cs.recvq, &waiter{t: me})
	e.blockLocked(me, "chan receive")
	// rescheduled: payload was delivered by the sender or by close.
	if !me.ok {
		return zero, false
	}
	v, _ := me.val.(T)
	me.val, me.ok = nil, false
	return v, true
}

// Recv is <-ch.
func Recv[T any](ch chan T) T {
	v, _ := RecvOK(ch)
	return v
}

// Close is close(ch).
func Close[T any](ch chan T) {
	e := cur
	if e == nil {
		close(ch)
		return
	}
	e.yield("close")
	e.mu.Lock()
	if e.dead {
		e.mu.Unlock()
		panic(&Abort{e.reason})
	}
	if ch == nil {
		e.mu.Unlock()
		panic("close of nil channel")
	}
	cs := e.chanLocked(ch, cap(ch))
	if cs.closed {
		e.mu.Unlock()
		panic("close of closed channel")
	}
	cs.closed = true
	for {
		r := popLive(&cs.recvq)
		if r == nil {
			break
		}
		deliver(r, nil, false)
	}
	for {
		s := popLive(&cs.sendq)
		if s == nil {
			break
		}
		release(s, false)
	}
	e.mu.Unlock()
}

// blockForever parks the running thread on an operation that can never complete.
func (e *exec) blockForever(on string) {
	e.mu.Lock()
	if e.dead {
		e.mu.Unlock()
		panic(&Abort{e.reason})
	}
	e.blockLocked(e.cur, on)
	panic(&Abort{"resumed from " + on})
}

// SelCase is one communication clause of a select statement.
type SelCase struct {
	ch   any           // the channel (map key of the logical channel state); nil interface for a nil channel
	rv   reflect.Value // the channel as a reflect value (native fallback)
	send bool
	val  any
	cap  int
}

// CaseSend is "case ch <- v".
func CaseSend[T any](ch chan T, v T) SelCase {
	c := SelCase{rv: reflect.ValueOf(ch), send: true, val: v, cap: cap(ch)}
	if ch != nil {
		c.ch = ch
	}
	return c
}

// CaseRecv is "case ... <-ch".
func CaseRecv[T any](ch chan T) SelCase {
	c := SelCase{rv: reflect.ValueOf(ch), cap: cap(ch)}
	if ch != nil {
		c.ch = ch
	}
	return c
}

// SelVal converts the value received by a select to the channel's element type.
func SelVal[T any](ch chan T, v any) T {
	tv, _ := v.(T)
	return tv
}

// Select is a select statement: it returns the index of the clause that proceeded (-1 for
// default), and for a receive clause the value and whether it came from a send. When several
// clauses can proceed the pick is a choice point (Go picks one at random).
func Select(hasDefault bool, cases ...SelCase) (int, any, bool) {
	e := cur
	if e == nil {
		return nativeSelect(hasDefault, cases)
	}
	e.yield("select")
	e.mu.Lock()
	if e.dead {
		e.mu.Unlock()
		panic(&Abort{e.reason})
	}
	me := e.cur
	states := make([]*chanState, len(cases))
	var ready []int
	for i, c := range cases {
		if c.ch == nil {
			continue
		}
		cs := e.chanLocked(c.ch, c.cap)
		states[i] = cs
		if c.send {
			if cs.closed || hasLive(cs.recvq) || len(cs.buf) < cs.cap {
				ready = append(ready, i)
			}
		} else if len(cs.buf) > 0 || hasLive(cs.sendq) || cs.closed {
			ready = append(ready, i)
		}
	}
	if len(ready) > 0 {
		pick := ready[0]
		if len(ready) > 1 {
			pick = ready[e.chooseLocked(len(ready), "select", nil)]
		}
		cs := states[pick]
		if cases[pick].send {
			func() {
				defer func() {
					if r := recover(); r != nil {
						e.mu.Unlock()
						panic(r)
					}
				}()
				cs.trySendLocked(cases[pick].val)
			}()
			e.mu.Unlock()
			return pick, nil, false
		}
		v, ok, _ := cs.tryRecvLocked()
		e.mu.Unlock()
		return pick, v, ok
	}
	if hasDefault {
		e.mu.Unlock()
		return -1, nil, false
	}
	sw := &selWait{}
	n := 0
	for i, c := range cases {
		if states[i] == nil {
			continue
		}
		n++
		if c.send {
			states[i].sendq = append(states[i].sendq, &waiter{t: me, sel: sw, idx: i, val: c.val})
		} else {
			states[i].recvq = append(states[i].recvq, &waiter{t: me, sel: sw, idx: i})
		}
	}
	on := "select"
	if n == 0 {
		on = "select with no ready-able case"
	}
	e.blockLocked(me, on)
	if sw.closed {
		panic("send on closed channel")
	}
	return sw.idx, sw.val, sw.ok
}

func nativeSelect(hasDefault bool, cases []SelCase) (int, any, bool) {
	rc := make([]reflect.SelectCase, 0, len(cases)+1)
	for _, c := range cases {
		if c.send {
			sv := reflect.ValueOf(c.val)
			if !sv.IsValid() {
				sv = reflect.Zero(c.rv.Type().Elem())
			}
			rc = append(rc, reflect.SelectCase{Dir: reflect.SelectSend, Chan: c.rv, Send: sv})
		} else {
			rc = append(rc, reflect.SelectCase{Dir: reflect.SelectRecv, Chan: c.rv})
		}
	}
	if hasDefault {
		rc = append(rc, reflect.SelectCase{Dir: reflect.SelectDefault})
	}
	i, v, ok := reflect.Select(rc)
	if hasDefault && i == len(cases) {
		return -1, nil, false
	}
	if cases[i].send || !v.IsValid() {
		return i, nil, false
	}
	return i, v.Interface(), ok
}

// ThreadID returns the id of the running logical thread (0 = main).
func ThreadID() int {
	e := cur
	if e == nil {
		return 0
	}
	e.mu.Lock()
	defer e.mu.Unlock()
	if e.cur == nil {
		return 0
	}
	return e.cur.id
}

// ---- primitives for the sync / sync/atomic shims (vrt/vsync, vrt/vatomic) ----

// SyncOp records that the running thread performed a synchronisation operation (lock, unlock,
// atomic, pool, once).  depth is the change in the number of shim locks it holds.
func SyncOp(depth int) {
	e := cur
	if e == nil {
		return
	}
	e.mu.Lock()
	e.syncOps++
	e.lockDepth += depth
	if e.cur != nil {
		e.cur.locks += depth
	}
	e.mu.Unlock()
}

// SyncState returns the number of synchronisation operations performed so far in this
// execution and the number of shim locks currently held (all threads).
func SyncState() (ops int64, held int) {
	e := cur
	if e == nil {
		return 0, 0
	}
	e.mu.Lock()
	defer e.mu.Unlock()
	return e.syncOps, e.lockDepth
}

// Block parks the running thread until another thread calls Wake(key).  The caller re-checks
// its condition afterwards (only one logical thread runs at a time, so the check-then-block of
// a shim is atomic).
func Block(key any, on string) {
	e := cur
	if e == nil {
		panic("vrt.Block outside an execution")
	}
	e.mu.Lock()
	if e.dead {
		e.mu.Unlock()
		panic(&Abort{e.reason})
	}
	me := e.cur
	if e.waiters == nil {
		e.waiters = map[any][]*thread{}
	}
	e.waiters[key] = append(e.waiters[key], me)
	e.blockLocked(me, on)
}

// Wake makes every thread blocked on key runnable again (n <= 0) or the first n of them.
func Wake(key any, n int) {
	e := cur
	if e == nil {
		return
	}
	e.mu.Lock()
	ws := e.waiters[key]
	if n <= 0 || n > len(ws) {
		n = len(ws)
	}
	for _, t := range ws[:n] {
		t.state = tRunnable
	}
	if n == len(ws) {
		delete(e.waiters, key)
	} else {
		e.waiters[key] = ws[n:]
	}
	e.mu.Unlock()
}
