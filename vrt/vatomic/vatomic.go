// Package vatomic stands in for sync/atomic in the instrumented build: every operation is a
// scheduling point of the controlled scheduler followed by the real atomic operation.
package vatomic

import (
	"sync/atomic"
	"unsafe"

	"verif/vrt"
)

func pt(site string) {
	if vrt.Active() {
		vrt.Yield(site)
		vrt.SyncOp(0)
	}
}

func AddInt32(p *int32, d int32) int32         { pt("atomic add"); return atomic.AddInt32(p, d) }
func AddInt64(p *int64, d int64) int64         { pt("atomic add"); return atomic.AddInt64(p, d) }
func AddUint32(p *uint32, d uint32) uint32     { pt("atomic add"); return atomic.AddUint32(p, d) }
func AddUint64(p *uint64, d uint64) uint64     { pt("atomic add"); return atomic.AddUint64(p, d) }
func AddUintptr(p *uintptr, d uintptr) uintptr { pt("atomic add"); return atomic.AddUintptr(p, d) }
func LoadInt32(p *int32) int32                 { pt("atomic load"); return atomic.LoadInt32(p) }
func LoadInt64(p *int64) int64                 { pt("atomic load"); return atomic.LoadInt64(p) }
func LoadUint32(p *uint32) uint32              { pt("atomic load"); return atomic.LoadUint32(p) }
func LoadUint64(p *uint64) uint64              { pt("atomic load"); return atomic.LoadUint64(p) }
func LoadUintptr(p *uintptr) uintptr           { pt("atomic load"); return atomic.LoadUintptr(p) }
func LoadPointer(p *unsafe.Pointer) unsafe.Pointer {
	pt("atomic load")
	return atomic.LoadPointer(p)
}
func StoreInt32(p *int32, v int32)       { pt("atomic store"); atomic.StoreInt32(p, v) }
func StoreInt64(p *int64, v int64)       { pt("atomic store"); atomic.StoreInt64(p, v) }
func StoreUint32(p *uint32, v uint32)    { pt("atomic store"); atomic.StoreUint32(p, v) }
func StoreUint64(p *uint64, v uint64)    { pt("atomic store"); atomic.StoreUint64(p, v) }
func StoreUintptr(p *uintptr, v uintptr) { pt("atomic store"); atomic.StoreUintptr(p, v) }
func StorePointer(p *unsafe.Pointer, v unsafe.Pointer) {
	pt("atomic store")
	atomic.StorePointer(p, v)
}
func SwapInt32(p *int32, v int32) int32         { pt("atomic swap"); return atomic.SwapInt32(p, v) }
func SwapInt64(p *int64, v int64) int64         { pt("atomic swap"); return atomic.SwapInt64(p, v) }
func SwapUint32(p *uint32, v uint32) uint32     { pt("atomic swap"); return atomic.SwapUint32(p, v) }
func SwapUint64(p *uint64, v uint64) uint64     { pt("atomic swap"); return atomic.SwapUint64(p, v) }
func SwapUintptr(p *uintptr, v uintptr) uintptr { pt("atomic swap"); return atomic.SwapUintptr(p, v) }
func SwapPointer(p *unsafe.Pointer, v unsafe.Pointer) unsafe.Pointer {
	pt("atomic swap")
	return atomic.SwapPointer(p, v)
}
func CompareAndSwapInt32(p *int32, o, n int32) bool {
	pt("atomic cas")
	return atomic.CompareAndSwapInt32(p, o, n)
}
func CompareAndSwapInt64(p *int64, o, n int64) bool {
	pt("atomic cas")
	return atomic.CompareAndSwapInt64(p, o, n)
}
func CompareAndSwapUint32(p *uint32, o, n uint32) bool {
	pt("atomic cas")
	return atomic.CompareAndSwapUint32(p, o, n)
}
func CompareAndSwapUint64(p *uint64, o, n uint64) bool {
	pt("atomic cas")
	return atomic.CompareAndSwapUint64(p, o, n)
}
func CompareAndSwapUintptr(p *uintptr, o, n uintptr) bool {
	pt("atomic cas")
	return atomic.CompareAndSwapUintptr(p, o, n)
}
func CompareAndSwapPointer(p *unsafe.Pointer, o, n unsafe.Pointer) bool {
	pt("atomic cas")
	return atomic.CompareAndSwapPointer(p, o, n)
}

type Bool struct{ v atomic.Bool }

func (x *Bool) Load() bool                    { pt("atomic load"); return x.v.Load() }
func (x *Bool) Store(v bool)                  { pt("atomic store"); x.v.Store(v) }
func (x *Bool) Swap(v bool) bool              { pt("atomic swap"); return x.v.Swap(v) }
func (x *Bool) CompareAndSwap(o, n bool) bool { pt("atomic cas"); return x.v.CompareAndSwap(o, n) }

type Int32 struct{ v atomic.Int32 }

func (x *Int32) Load() int32                    { pt("atomic load"); return x.v.Load() }
func (x *Int32) Store(v int32)                  { pt("atomic store"); x.v.Store(v) }
func (x *Int32) Swap(v int32) int32             { pt("atomic swap"); return x.v.Swap(v) }
func (x *Int32) Add(d int32) int32              { pt("atomic add"); return x.v.Add(d) }
func (x *Int32) CompareAndSwap(o, n int32) bool { pt("atomic cas"); return x.v.CompareAndSwap(o, n) }

type Int64 struct{ v atomic.Int64 }

func (x *Int64) Load() int64                    { pt("atomic load"); return x.v.Load() }
func (x *Int64) Store(v int64)                  { pt("atomic store"); x.v.Store(v) }
func (x *Int64) Swap(v int64) int64             { pt("atomic swap"); return x.v.Swap(v) }
func (x *Int64) Add(d int64) int64              { pt("atomic add"); return x.v.Add(d) }
func (x *Int64) CompareAndSwap(o, n int64) bool { pt("atomic cas"); return x.v.CompareAndSwap(o, n) }

type Uint32 struct{ v atomic.Uint32 }

func (x *Uint32) Load() uint32                    { pt("atomic load"); return x.v.Load() }
func (x *Uint32) Store(v uint32)                  { pt("atomic store"); x.v.Store(v) }
func (x *Uint32) Swap(v uint32) uint32            { pt("atomic swap"); return x.v.Swap(v) }
func (x *Uint32) Add(d uint32) uint32             { pt("atomic add"); return x.v.Add(d) }
func (x *Uint32) CompareAndSwap(o, n uint32) bool { pt("atomic cas"); return x.v.CompareAndSwap(o, n) }

type Uint64 struct{ v atomic.Uint64 }

func (x *Uint64) Load() uint64                    { pt("atomic load"); return x.v.Load() }
func (x *Uint64) Store(v uint64)                  { pt("atomic store"); x.v.Store(v) }
func (x *Uint64) Swap(v uint64) uint64            { pt("atomic swap"); return x.v.Swap(v) }
func (x *Uint64) Add(d uint64) uint64             { pt("atomic add"); return x.v.Add(d) }
func (x *Uint64) CompareAndSwap(o, n uint64) bool { pt("atomic cas"); return x.v.CompareAndSwap(o, n) }

type Uintptr struct{ v atomic.Uintptr }

func (x *Uintptr) Load() uintptr          { pt("atomic load"); return x.v.Load() }
func (x *Uintptr) Store(v uintptr)        { pt("atomic store"); x.v.Store(v) }
func (x *Uintptr) Swap(v uintptr) uintptr { pt("atomic swap"); return x.v.Swap(v) }
func (x *Uintptr) Add(d uintptr) uintptr  { pt("atomic add"); return x.v.Add(d) }
func (x *Uintptr) CompareAndSwap(o, n uintptr) bool {
	pt("atomic cas")
	return x.v.CompareAndSwap(o, n)
}

type Pointer[T any] struct{ v atomic.Pointer[T] }

func (x *Pointer[T]) Load() *T                    { pt("atomic load"); return x.v.Load() }
func (x *Pointer[T]) Store(v *T)                  { pt("atomic store"); x.v.Store(v) }
func (x *Pointer[T]) Swap(v *T) *T                { pt("atomic swap"); return x.v.Swap(v) }
func (x *Pointer[T]) CompareAndSwap(o, n *T) bool { pt("atomic cas"); return x.v.CompareAndSwap(o, n) }

type Value struct{ v atomic.Value }

func (x *Value) Load() any                    { pt("atomic load"); return x.v.Load() }
func (x *Value) Store(v any)                  { pt("atomic store"); x.v.Store(v) }
func (x *Value) Swap(v any) any               { pt("atomic swap"); return x.v.Swap(v) }
func (x *Value) CompareAndSwap(o, n any) bool { pt("atomic cas"); return x.v.CompareAndSwap(o, n) }
