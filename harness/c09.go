package main

import (
	"bytes"
	"fmt"
	"os"
	"strings"
	"sync"
	"time"

	"github.com/robfig/soy"
	"github.com/robfig/soy/data"
	"github.com/robfig/soy/soyhtml"
	"github.com/robfig/soy/soyjs"
	"github.com/robfig/soy/soymsg"
	"github.com/robfig/soy/template"
	"verif/vrt"
)

func init() {
	register("C09", checkC09)
	register("C09race", checkC09Race)
}

type c09world struct {
	reg    *template.Registry
	tofu   *soyhtml.Tofu
	datas  []data.Map
	ij     data.Map
	bundle soymsg.Bundle
	gen    *soyjs.Generator
	common data.Map // globals that independent bundles share (each gets them first, then adds its own)
}

type c09op struct {
	name string
	run  func(w *c09world) string
}

type c09case struct {
	Ops      []string `json:"thread_operations"`
	Schedule []int    `json:"schedule,omitempty"`
	Cold     bool     `json:"cold_start"`
}

func c09Build() (*c09world, error) {
	// every world starts from the package-level state of a fresh process (cold caches and memos).
	if vrt.Active() {
		restorePackageState()
	}
	files := c08Bundles()["core"]
	b := soy.NewBundle().AddGlobalsMap(data.Map{"G_ONE": data.Int(1)})
	for i, f := range files {
		b = b.AddTemplateString(fmt.Sprintf("f%d.soy", i), f)
	}
	// a failure two calls deep (the error text carries the chain of call sites)
	b = b.AddTemplateString("f2.soy", "{namespace p.three}\n{alias p.one}\n{alias p.two}\n/** @param x */\n{template .failsdeep}\nd{call .failsmid data=\"all\"/}\n{/template}\n/** @param x */\n{template .failsmid}\nm{call two.show/}{call one.fails data=\"all\"/}\n{/template}\n"+
		// randomInt(1) is always 0: deterministic output from the random source every render shares
		"/** @param? a\n * @param? l */\n{template .rnd}\n{foreach $i in [1, 2, 3]}{if randomInt(1) == 0}r{/if}{/foreach}"+
		// a translated plural message (placeholders are looked up in the shared tree on every render)
		"{msg desc=\"p\"}{plural length($l)}{case 1}one {$a} item{default}some {$a} items here{/plural}{/msg}\n{/template}\n")
	reg, err := b.Compile()
	if err != nil {
		return nil, err
	}
	w := &c09world{reg: reg, tofu: soyhtml.NewTofu(reg), ij: data.Map{"k": data.String("ij")}}
	w.datas = []data.Map{
		{"a": data.String("x<y"), "b": data.String("<b>bold</b>"), "l": data.List{data.Int(1), data.Int(2)}, "m": data.Map{"label": data.String("from-m"), "q": data.Int(1)}},
		{"a": data.String("other"), "l": data.List{}, "b": data.Map{"label": data.String("from-b")}},
	}
	w.bundle = identityBundleFor(reg)
	w.gen = soyjs.NewGenerator(reg)
	w.common = data.Map{"COMMON_ONE": data.Int(1), "COMMON_NAME": data.String("shared")}
	return w, nil
}

func c09Ops() []c09op {
	render := func(tn string, di int, msgs bool) c09op {
		return c09op{fmt.Sprintf("render %s data#%d msgs=%v", tn, di, msgs), func(w *c09world) string {
			var buf bytes.Buffer
			r := w.tofu.NewRenderer(tn).Inject(w.ij)
			if msgs {
				r = r.WithMessages(w.bundle)
			}
			err := r.Execute(&buf, w.datas[di])
			return buf.String() + errClass(err)
		}}
	}
	return []c09op{
		render("p.one.main", 0, false),
		render("p.one.main", 1, false),
		render("p.one.main", 0, true),
		render("p.two.show", 0, false),
		render("p.one.fails", 0, false),
		render("p.three.failsdeep", 0, false),
		render("p.three.rnd", 0, true),
		{"js es5 file#0", func(w *c09world) string {
			var buf bytes.Buffer
			err := soyjs.Write(&buf, w.reg.SoyFiles[0], soyjs.Options{})
			return buf.String() + errClass(err)
		}},
		{"js es6+msgs file#0", func(w *c09world) string {
			var buf bytes.Buffer
			err := soyjs.Write(&buf, w.reg.SoyFiles[0], soyjs.Options{Formatter: soyjs.ES6Formatter{}, Messages: w.bundle})
			return buf.String() + errClass(err)
		}},
		{"generator file#1 then file#0", func(w *c09world) string {
			// the Generator is the object a server shares between request goroutines
			var buf bytes.Buffer
			err1 := w.gen.WriteFile(&buf, "f1.soy")
			err0 := w.gen.WriteFile(&buf, "f0.soy")
			return buf.String() + errClass(err1) + errClass(err0)
		}},
		{"compile a bundle with syntax errors", func(w *c09world) string {
			// independent bundles that are rejected: the error paths of scanner and parser
			var out []string
			for _, src := range []string{"{namespace bad}\n{template .t}\n{let foo: 1 /}\n", "{namespace bad}\n{template .t}\n{$a[0}"} {
				_, err := soy.NewBundle().AddTemplateString("bad.soy", src).Compile()
				out = append(out, errClass(err))
			}
			return strings.Join(out, "|")
		}},
		{"compile an independent bundle and render it", func(w *c09world) string {
			// its globals come from text (each line is evaluated as an expression)
			g, gerr := soy.ParseGlobals(strings.NewReader("IND_A = 1 + 2\nIND_B = 'x' + 'y'\n"))
			if gerr != nil {
				return "globals error " + gerr.Error()
			}
			t, err := soy.NewBundle().AddGlobalsMap(w.common).AddGlobalsMap(g).AddTemplateString("ind.soy", "{namespace ind}\n/** @param x */\n{template .t}\n{msg desc=\"d\"}a{$x}b<b>{$x.yZ}</b>{/msg}{['k': $x, 'j': 1]}{let $b}[{$x.yZ}]{/let}{$b}{IND_A}{IND_B}{COMMON_ONE}{COMMON_NAME}{css IND_B, cls}\n{/template}\n").CompileToTofu()
			if err != nil {
				return "compile error " + err.Error()
			}
			var buf bytes.Buffer
			err = t.Render(&buf, "ind.t", map[string]interface{}{"x": map[string]interface{}{"yZ": "v"}})
			return buf.String() + errClass(err)
		}},
	}
}

func sharedRoots(w *c09world) []any {
	roots := []any{w.reg, &w.datas, &w.ij, w.bundle, w.gen, &w.common}
	return append(roots, packageState()...)
}

func checkC09(c *Ctx) {
	digestPoolsOpaque = true
	snapshotPackageState()
	ops := c09Ops()
	// solo reference outputs (fresh world each)
	solo := make([]string, len(ops))
	for i, op := range ops {
		var w *c09world
		var err error
		vrt.Run(vrt.Options{FixedSched: true}, func() { w, err = c09Build() })
		if err != nil {
			c.Violate("fixture compiles", "mismatch", "fixture", c09case{}, "compiles", err.Error())
			return
		}
		vrt.Run(vrt.Options{FixedSched: true}, func() { solo[i] = op.run(w) })
	}
	// (2) solo runs: no step of an operation may change the shared state (render code has no
	// synchronisation, so any write to state another operation can read is a race; and steps that
	// write nothing shared commute, so finer interleavings are equivalent to explored ones).
	if c.Instr() {
		for i, op := range ops {
			if !c.Mine() {
				continue
			}
			var w *c09world
			vrt.Run(vrt.Options{FixedSched: true}, func() { w, _ = c09Build() })
			d0 := deepDigest(sharedRoots(w)...)
			steps, changedAt := 0, -1
			// a change of the shared state is attributed to unsynchronised code only when no
			// synchronisation operation (lock, unlock, once, pool, atomic: the shims count them)
			// happened since the previous digest and no lock is held; state changed under
			// synchronisation is legitimate and is left to the interleaving exploration and the race pass.
			var ops0 int64
			syncChanges := 0
			look := func() {
				ops, held := vrt.SyncState()
				d := deepDigest(sharedRoots(w)...)
				if d != d0 {
					if ops == ops0 && held == 0 {
						if changedAt < 0 {
							changedAt = steps
						}
					} else {
						syncChanges++
						d0 = d
					}
				}
				ops0 = ops
			}
			vrt.Run(vrt.Options{YieldTick: true, OnYield: func(site string) {
				steps++
				if changedAt < 0 && (steps%3 == 0 || site != "tick") {
					look()
				}
			}}, func() { op.run(w); look() })
			c.Count("solo_changes_under_synchronisation", int64(syncChanges))
			if os.Getenv("VERIF_DEBUG") != "" {
				fmt.Fprintf(os.Stderr, "%s solo %s steps %d\n", time.Now().Format("15:04:05.000"), op.name, steps)
			}
			c.Count("solo_steps_digested", int64(steps))
			c.ObserveLocal("solo:"+op.name, fmt.Sprint(changedAt))
			c.Nontrivial()
			if changedAt >= 0 {
				c.Violate("an operation on a shared compiled bundle writes no state that another operation can read", "mismatch", "shared-write:"+opClass(op.name), c09case{Ops: []string{op.name}, Cold: true},
					"shared-state digest identical at every step", fmt.Sprintf("digest changed at step %d of %d of %s (%s)", changedAt, steps, op.name, digestDiffC09(w)))
			}
			_ = i
		}
	}
	// (1) interleavings of two (thorough: three) threads up to the preemption bound.
	nThreads := 2
	for i := range ops {
		for j := range ops {
			for pass := 1; pass <= 2; pass++ {
				// each pass of each scenario is one exploration divided among all workers.
				run, owner, shard, nshards := c.MineShared()
				if !run || (!c.Instr() && (pass == 2 || !owner)) {
					continue
				}
				idx := []int{i, j}
				if c.Thorough() {
					idx = append(idx, (i+j+1)%len(ops))
					nThreads = 3
				}
				// yield granularity: every 8th instrumented point of each thread at preemption bound 1,
				// every 48th at bound 2 (the schedule space grows with the square of the points).
				// two passes per scenario: fine granularity at bound 1, coarser at bound 2.
				bound, mod := 2, 32
				if c.Thorough() {
					mod = 12
				}
				var names []string
				for _, k := range idx {
					names = append(names, ops[k].name)
				}
				// compilation has an order of magnitude more instrumented points than a render (and its
				// scanner threads add a yield point per token): thinner yields at bound 2 in the quick tier.
				nCompile := 0
				for _, n := range names {
					if strings.HasPrefix(n, "compile ") {
						nCompile++
					}
				}
				if !c.Thorough() {
					mod = []int{32, 48, 96}[nCompile]
				} else if nCompile > 0 {
					mod = []int{12, 96, 192, 192}[nCompile]
				}
				cs := c09case{Ops: names, Cold: true}
				if !c.Instr() {
					// plain build: the same bodies on real goroutines (free-running), outputs compared.
					for rep := 0; rep < 20; rep++ {
						w, err := c09Build()
						if err != nil {
							break
						}
						outs := make([]string, len(idx))
						var wg sync.WaitGroup
						for t, k := range idx {
							wg.Add(1)
							go func(t, k int) { defer wg.Done(); outs[t] = ops[k].run(w) }(t, k)
						}
						wg.Wait()
						for t, k := range idx {
							if outs[t] != solo[k] {
								c.Violate("each concurrent operation produces exactly the bytes it produces alone", "mismatch", "concurrent-output:"+opClass(ops[k].name), cs, clip(solo[k]), clip(outs[t]))
							}
						}
					}
					c.Observe(strings.Join(names, " || ")+" bound 1", "ok")
					c.Nontrivial()
					continue
				}
				var w *c09world
				outs := make([]string, len(idx))
				body := func() {
					done := make(chan int)
					for t, k := range idx {
						t, k := t, k
						vrt.Go(func() {
							outs[t] = ops[k].run(w)
							vrt.Send(done, t)
						})
					}
					for range idx {
						vrt.Recv(done)
					}
				}
				setup := func() { vrt.Run(vrt.Options{FixedSched: true}, func() { w, _ = c09Build() }) }
				checkOut := func(v vrt.Verdict, prefix []int) {
					cs.Schedule = prefix
					if v.Panic != nil || v.Deadlock || v.Exhausted {
						c.Violate("concurrent operations return", "panic", "panic:"+opClass(names[0])+"||"+opClass(names[1]), cs, "outputs", fmt.Sprint(v.Panic, v.Deadlock, v.Exhausted))
						return
					}
					for t, k := range idx {
						if outs[t] != solo[k] {
							c.Violate("each concurrent operation produces exactly the bytes it produces alone", "mismatch", "concurrent-output:"+opClass(ops[k].name)+" with "+opClass(names[(t+1)%len(names)]), cs, clip(solo[k]), clip(outs[t]))
						}
					}
				}
				if pass == 1 {
					mod1, cap1 := 4, int64(300000)
					if c.Thorough() && nCompile == 0 {
						mod1, cap1 = 1, 2000000 // every instrumented point is a yield point
					}
					st1 := exploreSharded(vrt.Options{Fuel: 50000000, YieldTick: true, YieldMod: mod1}, 1, cap1, setup, body, checkOut, shard, nshards)
					c.Count("schedules", st1.Execs)
					c.Max("max_schedule_points", int64(st1.MaxPoints))
					c.Max("threads", int64(nThreads))
					if st1.Capped {
						c.Cap(fmt.Sprintf("schedule exploration (bound 1) capped at %d per worker for ", cap1) + strings.Join(names, " || "))
					}
					if owner {
						c.Observe(strings.Join(names, " || ")+" bound 1", "ok")
						c.Nontrivial()
					}
					continue
				}
				cap2 := int64(300000)
				if c.Thorough() {
					cap2 = 2000000
				}
				st := exploreSharded(vrt.Options{Fuel: 50000000, YieldTick: true, YieldMod: mod}, bound, cap2, setup, body, func(v vrt.Verdict, prefix []int) {
					cs.Schedule = prefix
					switch {
					case v.Panic != nil:
						c.Violate("concurrent operations do not panic", "panic", "panic:"+opClass(names[0])+"||"+opClass(names[1]), cs, "outputs", fmt.Sprint(v.Panic))
					case v.Deadlock || v.Exhausted:
						c.Violate("concurrent operations terminate", "deadlock", "deadlock:"+opClass(names[0])+"||"+opClass(names[1]), cs, "outputs", fmt.Sprint(v.Deadlock, v.Exhausted))
					default:
						for t, k := range idx {
							if outs[t] != solo[k] {
								c.Violate("each concurrent operation produces exactly the bytes it produces alone", "mismatch", "concurrent-output:"+opClass(ops[k].name)+" with "+opClass(names[(t+1)%len(names)]), cs, clip(solo[k]), clip(outs[t]))
							}
						}
					}
				}, shard, nshards)
				if os.Getenv("VERIF_DEBUG") != "" {
					fmt.Fprintf(os.Stderr, "%s scenario %v: %d schedules, %d points\n", time.Now().Format("15:04:05.000"), names, st.Execs, st.MaxPoints)
				}
				c.Count("schedules", st.Execs)
				c.Max("max_schedule_points", int64(st.MaxPoints))
				c.Max("threads", int64(nThreads))
				if st.Capped {
					c.Cap(fmt.Sprintf("schedule exploration capped at %d per worker for ", cap2) + strings.Join(names, " || "))
				}
				if owner {
					c.ObserveLocal(strings.Join(names, " || ")+" bound 2", "ok")
					c.Nontrivial()
				}
				if owner && c.Index()%7 == 0 {
					c.Sample(map[string]any{"threads": names, "schedules": st.Execs, "preemption_bound": bound, "yield_every_nth_point": mod, "scheduling_points": st.MaxPoints})
				}
			}
		}
	}
}

func digestDiffC09(w *c09world) string {
	// render the dirty state first: building the fresh world resets the package-level variables.
	a := sharedRoots(w)
	as := make([]string, len(a))
	for i := range a {
		if _, ok := a[i].(string); !ok {
			as[i] = deepString(a[i])
		}
	}
	var fresh *c09world
	vrt.Run(vrt.Options{FixedSched: true}, func() { fresh, _ = c09Build() })
	if fresh == nil {
		return "?"
	}
	b := sharedRoots(fresh)
	labels := []string{"compiled registry", "caller data", "injected data", "message bundle", "shared generator", "common globals map"}
	for i := range a {
		if s, ok := a[i].(string); ok {
			labels = append(labels, s, s)
			continue
		}
		if as[i] != deepString(b[i]) {
			if i < len(labels) {
				return labels[i] + " differs"
			}
			return fmt.Sprintf("root %d differs", i)
		}
	}
	return "no single root differs"
}

// checkC09Race runs the same operation bodies free-running on real goroutines. It is meant for
// the -race build: the detector's reports are the verdict (read by the driver from stderr).
func checkC09Race(c *Ctx) {
	ops := c09Ops()
	iters := 30
	if c.Thorough() {
		iters = 200
	}
	for i := range ops {
		for j := range ops {
			if !c.Mine() {
				continue
			}
			for rep := 0; rep < iters; rep++ {
				w, err := c09Build() // cold start every time
				if err != nil {
					return
				}
				var wg sync.WaitGroup
				for _, k := range []int{i, j, (i + j) % len(ops)} {
					wg.Add(1)
					go func(k int) { defer wg.Done(); ops[k].run(w) }(k)
				}
				wg.Wait()
			}
			c.Observe(ops[i].name+"||"+ops[j].name, "ran")
			c.Nontrivial()
		}
	}
	fmt.Fprintln(os.Stderr, "C09race: done")
}
