package main

import (
	"reflect"
	"strings"
	"unsafe"

	"verif/vrt"
)

// Package-level state of the code under test persists between the executions of a stateless
// exploration (they share one process): a lazily built cache or memo would be cold in the first
// execution only and every later schedule would see it warm.  The instrumenter registers the
// address of every package-level variable of the repository; snapshotPackageState records their
// values right after package initialisation and restorePackageState puts a fresh deep copy back,
// so that every execution starts from the state a new process would have.
//
// Copy policy: maps, slices, arrays and structs/pointers of types declared in the repository are
// copied deeply (one memo per pass keeps aliasing between variables); values of types declared
// elsewhere (regexp.Regexp, log.Logger, the sync shims, ...) are opaque: pointers to them are
// shared, values are copied shallowly.  Functions and channels are shared.

type pkgSnapshot struct {
	ptr  reflect.Value // pointer to the variable
	orig reflect.Value // deep copy of its initial value
}

var pkgSnap []pkgSnapshot

func snapshotPackageState() {
	if pkgSnap != nil {
		return
	}
	memo := map[unsafe.Pointer]reflect.Value{}
	for _, v := range vrt.Vars() {
		p := reflect.ValueOf(v.Ptr)
		c := reflect.New(p.Type().Elem()).Elem()
		cloneInto(c, p.Elem(), memo)
		pkgSnap = append(pkgSnap, pkgSnapshot{ptr: p, orig: c})
	}
}

// restorePackageState resets every registered package-level variable to (a fresh copy of) its
// initial value.  No-op on the plain build (nothing is registered there).
func restorePackageState() {
	memo := map[unsafe.Pointer]reflect.Value{}
	for _, s := range pkgSnap {
		cloneInto(s.ptr.Elem(), s.orig, memo)
	}
}

func repoType(t reflect.Type) bool {
	// the sync shims are ours: their contents (a Map's entries, a Pool's items) are part of the state.
	return t.PkgPath() == "" || strings.HasPrefix(t.PkgPath(), "github.com/robfig/soy") || strings.HasPrefix(t.PkgPath(), "verif/vrt/")
}

func settable(v reflect.Value) reflect.Value {
	if v.CanSet() {
		return v
	}
	return reflect.NewAt(v.Type(), unsafe.Pointer(v.UnsafeAddr())).Elem()
}

func readable(v reflect.Value) reflect.Value {
	if v.CanInterface() || !v.CanAddr() {
		return v
	}
	return reflect.NewAt(v.Type(), unsafe.Pointer(v.UnsafeAddr())).Elem()
}

// cloneInto sets dst (addressable) to a deep copy of src.
func cloneInto(dst, src reflect.Value, memo map[unsafe.Pointer]reflect.Value) {
	dst = settable(dst)
	src = readable(src)
	switch src.Kind() {
	case reflect.Map:
		if src.IsNil() {
			dst.Set(reflect.Zero(src.Type()))
			return
		}
		if m, ok := memo[src.UnsafePointer()]; ok {
			dst.Set(m)
			return
		}
		m := reflect.MakeMapWithSize(src.Type(), src.Len())
		memo[src.UnsafePointer()] = m
		it := src.MapRange()
		for it.Next() {
			k := reflect.New(src.Type().Key()).Elem()
			cloneInto(k, it.Key(), memo)
			e := reflect.New(src.Type().Elem()).Elem()
			cloneInto(e, it.Value(), memo)
			m.SetMapIndex(k, e)
		}
		dst.Set(m)
	case reflect.Slice:
		if src.IsNil() {
			dst.Set(reflect.Zero(src.Type()))
			return
		}
		s := reflect.MakeSlice(src.Type(), src.Len(), src.Len())
		for i := 0; i < src.Len(); i++ {
			cloneInto(s.Index(i), src.Index(i), memo)
		}
		dst.Set(s)
	case reflect.Array:
		for i := 0; i < src.Len(); i++ {
			cloneInto(dst.Index(i), src.Index(i), memo)
		}
	case reflect.Struct:
		if !repoType(src.Type()) {
			dst.Set(src)
			return
		}
		if !src.CanAddr() {
			tmp := reflect.New(src.Type()).Elem()
			tmp.Set(src)
			src = tmp
		}
		shim := strings.HasPrefix(src.Type().PkgPath(), "verif/vrt/")
		for i := 0; i < src.NumField(); i++ {
			if shim && src.Type().Field(i).Name == "real" {
				continue // the native primitive behind a shim is not state of the model (and must not be copied)
			}
			cloneInto(dst.Field(i), src.Field(i), memo)
		}
	case reflect.Ptr:
		if src.IsNil() || !repoType(src.Type().Elem()) {
			dst.Set(src)
			return
		}
		if p, ok := memo[src.UnsafePointer()]; ok {
			dst.Set(p)
			return
		}
		p := reflect.New(src.Type().Elem())
		memo[src.UnsafePointer()] = p
		cloneInto(p.Elem(), src.Elem(), memo)
		dst.Set(p)
	case reflect.Interface:
		if src.IsNil() {
			dst.Set(reflect.Zero(src.Type()))
			return
		}
		e := reflect.New(src.Elem().Type()).Elem()
		cloneInto(e, src.Elem(), memo)
		dst.Set(e)
	default:
		dst.Set(src)
	}
}
