package main

import (
	"bytes"
	"fmt"
	"sort"
	"strings"

	"github.com/robfig/soy"
	"github.com/robfig/soy/errortypes"
	"github.com/robfig/soy/parse"
	"verif/vrt"
)

func init() { register("C19", checkC19) }

type c19case struct {
	Kind  string            `json:"kind"`
	File  string            `json:"file"`
	Text  string            `json:"text,omitempty"`
	Files map[string]string `json:"files,omitempty"`
	Fault string            `json:"fault"`
	Line  int               `json:"fault_line"`
	EOL   string            `json:"line_ending"`
}

// valid files: one construct per line.
func c19Files() [][]string {
	return [][]string{
		{"{namespace n.one}", "", "/**", " * @param x", " * @param? y", " */", "{template .a}", "Hello {$x}", "{if $y}", "  yes {$y}", "{else}", "  no", "{/if}", "{/template}"},
		{"{namespace n.two}", "/** @param l */", "{template .b}", "{foreach $i in $l}", "  <li>{$i}</li>", "{ifempty}", "  none", "{/foreach}", "{let $v: 1 + 2 /}", "{$v}", "{/template}"},
		{"{namespace n.three}", "{template .c}", "{@param m: ?}", "{switch $m}", "{case 1}", "one", "{case 2, 3}", "few", "{default}", "many", "{/switch}", "{call .d}", "{param p: $m /}", "{/call}", "{/template}", "/** @param p */", "{template .d}", "{$p}", "{/template}"},
		{"{namespace n.four}", "// a comment line", "/** doc */", "{template .e}", "{msg desc=\"d\"}", "text <b>bold</b>", "{/msg}", "/* block", "   comment */", "{css cls}", "{literal}{x}{/literal}", "{sp}{nil}", "{/template}"},
	}
}

type c19fault struct {
	name   string
	insert string // appended to the line
	exact  bool   // the error must be reported on the fault line itself; otherwise between the fault line and the last line
}

func c19Faults() []c19fault {
	return []c19fault{
		{"illegal character in a tag", "{$x # 1}", true},
		{"illegal character in a tag 2", "{1 ^ 2}", true},
		{"stray closing brace in text", "oops } here", true},
		{"stray closing brace ending the line", "}", true},
		{"stray closing brace after text, ending the line", "tail text }", true},
		{"unknown command", "{/blah}", true},
		{"unknown command 2", "{\\q}", true},
		{"malformed expression", "{1 + }", true},
		{"malformed expression 2", "{[1, }", true},
		{"unexpected close tag", "{/foreach}", false},
		{"bad number", "{12abc}", true},
		{"unterminated string", "{'abc}", false},
		{"unterminated block comment", "/* never closed", false},
		{"unterminated tag", "{if $x", false},
		{"unterminated literal", "{literal} x", false},
		{"unterminated soydoc", "/** @param", false},
	}
}

func checkC19(c *Ctx) {
	c19WriteFailures(c)
	files := c19Files()
	faults := c19Faults()
	// ---- parse errors ----
	for fi, lines := range files {
		if fi%2 == 1 {
			// inputs may begin with blank lines (a Go raw string that starts on the line after the back quote)
			lines = append([]string{"", "", ""}, lines...)
		}
		for _, eolv := range []struct {
			eol   string
			final bool // the input ends with a line break
		}{{"\n", true}, {"\r\n", true}, {"\n", false}} {
			eol := eolv.eol
			// li == len(lines): the fault is an extra line after the last one
			for li := 0; li <= len(lines); li++ {
				for _, f := range faults {
					for _, where := range []string{"append", "replace"} {
						if !c.Mine() {
							continue
						}
						if li == len(lines) && where == "append" {
							continue
						}
						if li < len(lines) && inCommentRegion(lines, li) {
							continue // the fault would be comment text, or would change where a comment ends
						}
						mut := append([]string{}, lines...)
						switch {
						case li == len(lines):
							mut = append(mut, f.insert)
						case where == "append":
							mut[li] = mut[li] + " " + f.insert
						default:
							mut[li] = f.insert
						}
						text := strings.Join(mut, eol)
						if eolv.final {
							text += eol
						}
						name := fmt.Sprintf("dir/file%d.soy", fi)
						var perr error
						v := vrt.Run(vrt.Options{Fuel: 5000000}, func() {
							_, perr = parse.SoyFile(name, text)
							if perr != nil && li%2 == 1 {
								// the same error through the bundle API, which is how files reach the parser in practice
								_, perr = soy.NewBundle().AddTemplateString(name, text).Compile()
							}
						})
						cs := c19case{Kind: "parse", File: name, Text: text, Fault: f.name + " (" + where + ")", Line: li + 1, EOL: fmt.Sprintf("%q", eol)}
						key := fmt.Sprintf("p%d|%q|%v|%d|%s|%s", fi, eol, eolv.final, li, f.name, where)
						if v.Panic != nil || v.Exhausted {
							c.Observe(key, "panic/hang")
							c.Violate("parser returns", "panic", "panic:"+f.name, cs, "error", fmt.Sprint(v.Panic, v.Exhausted))
							continue
						}
						if perr == nil {
							// the mutation happened to be valid here (e.g. inside a comment or literal): nothing to check.
							c.Observe(key, "accepted")
							continue
						}
						c.Nontrivial()
						fp := errortypes.ToErrFilePos(perr)
						if fp == nil {
							c.Observe(key, "no position")
							c.Violate("every parse error carries a file position", "mismatch", "no-filepos:"+f.name, cs, "ErrFilePos", perr.Error())
							continue
						}
						c.Observe(key, fmt.Sprintf("%s:%d", fp.File(), fp.Line()))
						nlines := len(mut)
						sig := f.name + ":" + where + ":" + lineClass(li, len(lines)) + ":" + fmt.Sprintf("%q", eol)
						if !eolv.final {
							sig += ":no final line break"
						}
						msg := perr.Error()
						switch {
						case fp.File() != name:
							c.Violate("the error carries the file name given for the input", "mismatch", "file:"+sig, cs, name, fmt.Sprintf("%q (%s)", fp.File(), firstLineOf(msg)))
						case fp.Line() < 1 || fp.Line() > nlines+1:
							c.Violate("the line number lies inside the input", "mismatch", "line-range:"+sig, cs, fmt.Sprintf("1..%d", nlines), fmt.Sprintf("%d (%s)", fp.Line(), firstLineOf(msg)))
						case f.exact && where == "replace" && !lineOK(mut, li, fp.Line()):
							c.Violate("the line is the line of the construct that could not be scanned or parsed", "mismatch", "line:"+sig, cs, fmt.Sprint(li+1), fmt.Sprintf("%d (%s)", fp.Line(), firstLineOf(msg)))
						case f.exact && where == "append" && !lineOK(mut, li, fp.Line()):
							c.Violate("the line is the line of the construct that could not be scanned or parsed", "mismatch", "line:"+sig, cs, fmt.Sprint(li+1), fmt.Sprintf("%d (%s)", fp.Line(), firstLineOf(msg)))
						case !f.exact && !(fp.Line() >= firstPossible(mut, li) && fp.Line() <= nlines+1):
							c.Violate("the line lies between the start of the unterminated construct and the end of the input", "mismatch", "line-unterminated:"+sig, cs, fmt.Sprintf("%d..%d", li+1, nlines), fmt.Sprintf("%d (%s)", fp.Line(), firstLineOf(msg)))
						case !strings.Contains(msg, fmt.Sprintf("%s:%d:", name, fp.Line())):
							c.Violate("the same numbers appear in the message text", "mismatch", "message:"+sig, cs, fmt.Sprintf("…%s:%d:…", name, fp.Line()), firstLineOf(msg))
						}
						if c.Index()%1999 == 0 {
							c.Sample(map[string]any{"fault": cs.Fault, "fault_line": li + 1, "reported": fmt.Sprintf("%s:%d", fp.File(), fp.Line()), "message": firstLineOf(msg)})
						}
					}
				}
			}
		}
	}
	// ---- errors inside quoted attribute expressions and css prefixes ----
	for li := 3; li <= 9; li++ {
		for _, tag := range []string{"{call .x data=\"$a + \"/}", "{call .x data=\"$a ) $b\"/}", "{call .x}{param key=\"k\" value=\"[1, , 2]\"/}{/call}", "{css $a + ), foo}", "{call .x data=\"1 ^ 2\"/}"} {
			for _, eol := range []string{"\n", "\r\n"} {
				if !c.Mine() {
					continue
				}
				var lines []string
				lines = append(lines, "{namespace q}", "/** @param a */", "{template .t}")
				for len(lines) < li {
					lines = append(lines, "text {$a}")
				}
				lines = append(lines, tag, "{/template}", "/** @param? k */", "{template .x}", "{$k ?: 1}", "{/template}")
				text := strings.Join(lines, eol) + eol
				var perr error
				vrt.Run(vrt.Options{Fuel: 5000000}, func() { _, perr = parse.SoyFile("q/attr.soy", text) })
				cs := c19case{Kind: "parse-attr", File: "q/attr.soy", Text: text, Fault: tag, Line: li + 1, EOL: fmt.Sprintf("%q", eol)}
				key := fmt.Sprintf("attr|%d|%s|%q", li, tag, eol)
				if perr == nil {
					c.Observe(key, "accepted")
					continue
				}
				c.Nontrivial()
				fp := errortypes.ToErrFilePos(perr)
				if fp == nil {
					c.Observe(key, "no position")
					c.Violate("every parse error carries a file position", "mismatch", "no-filepos:attr", cs, "ErrFilePos", perr.Error())
					continue
				}
				c.Observe(key, fmt.Sprintf("%s:%d", fp.File(), fp.Line()))
				switch {
				case fp.File() != "q/attr.soy":
					c.Violate("the error carries the file name given for the input", "mismatch", "file:quoted-attribute", cs, "q/attr.soy", fmt.Sprintf("%q (%s)", fp.File(), firstLineOf(perr.Error())))
				case fp.Line() != li+1:
					c.Violate("the line is the line of the construct that could not be parsed", "mismatch", "line:quoted-attribute", cs, fmt.Sprint(li+1), fmt.Sprintf("%d (%s)", fp.Line(), firstLineOf(perr.Error())))
				case !strings.Contains(perr.Error(), fmt.Sprintf("q/attr.soy:%d:", fp.Line())):
					c.Violate("the same numbers appear in the message text", "mismatch", "message:quoted-attribute", cs, fmt.Sprintf("q/attr.soy:%d:", fp.Line()), firstLineOf(perr.Error()))
				}
			}
		}
	}
	// ---- render errors: a failing print on every line, inside blocks and 1-3 calls deep ----
	bads := []string{"{1 < 'a'}", "{$u}", "{$n.x}", "{length(1)}"}
	for _, eol := range []string{"\n", "\r\n"} {
		for depth := 0; depth <= 3; depth++ {
			for pad := 0; pad <= 5; pad++ {
				for _, wrap := range []string{"plain", "if", "foreach", "let", "param", "call-value-params", "call-content-params", "quoted-data", "quoted-value", "css-expr"} {
					for bi, bad := range bads {
						if !c.Mine() {
							continue
						}
						// entry file: the failing command (or the call leading to it) sits on line failLine.
						var lines []string
						if pad%2 == 1 {
							lines = append(lines, "", "", "") // the entry file begins with blank lines
						}
						lines = append(lines, "{namespace r.entry}", "/**", " * @param? u", " * @param? n", " */", "{template .main}")
						for i := 0; i < pad; i++ {
							lines = append(lines, fmt.Sprintf("filler line %d {$n ?: ''}", i))
						}
						inner := bad
						if depth > 0 {
							inner = "{call r.lib.d1 data=\"all\"/}"
						}
						var ok []int // acceptable lines
						switch wrap {
						case "call-value-params", "call-content-params":
							// the failing callee is reached through a call whose params sit on their own lines:
							// the error belongs to the line of the {call} tag.
							if depth == 0 {
								continue
							}
							lines = append(lines, "{call r.lib.d1}")
							ok = []int{len(lines)}
							if wrap == "call-value-params" {
								lines = append(lines, "  {param u: $u /}", "  {param n: $n /}")
							} else {
								lines = append(lines, "  {param "+map[bool]string{true: "n", false: "u"}[strings.Contains(bad, "$u")]+"}", "    text", "    {$n ?: ''}", "    more text", "  {/param}")
							}
							lines = append(lines, "{/call}")
						case "quoted-data", "quoted-value", "css-expr":
							// the failing expression sits in a quoted attribute (or the expression part of
							// {css}), which the parser handles on its own: the error still belongs to the tag.
							if depth != 0 {
								continue
							}
							expr := strings.Trim(bad, "{}")
							if expr == "$u" {
								expr = "$u.b.c"
							}
							switch wrap {
							case "quoted-data":
								lines = append(lines, "{call .sink data=\""+expr+"\"/}")
								ok = []int{len(lines)}
							case "quoted-value":
								lines = append(lines, "{call .sink}")
								a := len(lines)
								lines = append(lines, "  {param key=\"s\" value=\""+expr+"\"/}")
								ok = []int{a, len(lines)}
								lines = append(lines, "{/call}")
							default:
								lines = append(lines, "{css "+expr+", cls}")
								ok = []int{len(lines)}
							}
						case "plain":
							lines = append(lines, inner)
							ok = []int{len(lines)}
						case "if":
							lines = append(lines, "{if true}")
							a := len(lines)
							lines = append(lines, "  "+inner)
							ok = []int{a, len(lines)}
							lines = append(lines, "{/if}")
						case "foreach":
							lines = append(lines, "{foreach $i in [1, 2]}")
							a := len(lines)
							lines = append(lines, "  {$i}", "  "+inner)
							ok = []int{a, len(lines)}
							lines = append(lines, "{/foreach}")
						case "let":
							lines = append(lines, "{let $w}")
							a := len(lines)
							lines = append(lines, "  "+inner)
							ok = []int{a, len(lines)}
							lines = append(lines, "{/let}", "{$w}")
						case "param":
							lines = append(lines, "{call .sink}")
							a := len(lines)
							lines = append(lines, "{param s}")
							b := len(lines)
							lines = append(lines, "  "+inner)
							ok = []int{a, b, len(lines)}
							lines = append(lines, "{/param}", "{/call}")
						}
						lines = append(lines, "tail {$u ?: ''}{$n ?: ''}", "{/template}", "/** @param? s */", "{template .sink}", "{$s ?: ''}", "{/template}")
						entry := strings.Join(lines, eol) + eol
						// library file: long, so that callee line numbers differ from the entry's.
						var lib []string
						lib = append(lib, "{namespace r.lib}")
						for i := 0; i < 25+3*bi; i++ {
							lib = append(lib, "// padding")
						}
						for d := 1; d <= 3; d++ {
							body := bad
							if d < depth {
								body = fmt.Sprintf("{call .d%d data=\"all\"/}", d+1)
							}
							lib = append(lib, "/**", " * @param? u", " * @param? n", " */", fmt.Sprintf("{template .d%d}", d), "x{$u ?: ''}{$n ?: ''}", body, "{/template}")
						}
						libText := strings.Join(lib, eol) + eol
						// inputs may share a file name (AddTemplateString takes any name, also none): the
						// position is still a position in the text that defines the entry template.
						entry0, libText0 := entry, libText
						for naming := 0; naming < 6; naming++ {
							if naming > 0 && !(pad%3 == 0 && (wrap == "plain" || wrap == "if")) {
								continue
							}
							entryName, libName, entryFirst := "app/entry.soy", "lib/library.soy", false
							entry, libText := entry0, libText0
							if naming >= 4 {
								// one namespace spread over two files (the library file first, or the entry file first)
								entry = strings.ReplaceAll(entry0, "r.lib.", "r.entry.")
								libText = strings.Replace(libText0, "{namespace r.lib}", "{namespace r.entry}", 1)
								entryFirst = naming == 5
							}
							switch naming {
							case 1:
								entryName, libName = "shared.soy", "shared.soy"
							case 2:
								entryName, libName, entryFirst = "shared.soy", "shared.soy", true
							case 3:
								entryName, libName, entryFirst = "", "", true
							}
							var rerr error
							var cerr error
							v := vrt.Run(vrt.Options{Fuel: 5000000}, func() {
								b := soy.NewBundle()
								if entryFirst {
									b = b.AddTemplateString(entryName, entry).AddTemplateString(libName, libText)
								} else {
									b = b.AddTemplateString(libName, libText).AddTemplateString(entryName, entry)
								}
								tofu, err := b.CompileToTofu()
								if err != nil {
									cerr = err
									return
								}
								var buf bytes.Buffer
								rerr = tofu.Render(&buf, "r.entry.main", nil)
							})
							cs := c19case{Kind: "render", File: entryName, Files: map[string]string{"entry: " + entryName: entry, "library: " + libName: libText}, Fault: bad + fmt.Sprintf(" at call depth %d in %s", depth, wrap), Line: ok[len(ok)-1], EOL: fmt.Sprintf("%q", eol)}
							key := fmt.Sprintf("r|%q|%d|%d|%s|%d|%d", eol, depth, pad, wrap, bi, naming)
							sig := fmt.Sprintf("depth %d:%s:%q", depth, wrap, eol)
							if naming > 0 && naming < 4 {
								sig += fmt.Sprintf(":inputs named %q and %q", entryName, libName)
							} else if naming >= 4 {
								sig += ":one namespace in two files"
							}
							switch {
							case v.Panic != nil || v.Exhausted:
								c.Observe(key, "panic")
								c.Violate("render returns", "panic", "panic:render "+sig, cs, "error", fmt.Sprint(v.Panic))
								continue
							case cerr != nil:
								c.Observe(key, "compile error")
								c.Violate("fixture compiles", "mismatch", "fixture:render", cs, "compiles", cerr.Error())
								continue
							case rerr == nil:
								c.Observe(key, "no error")
								c.Violate("the failing print fails the render", "mismatch", "no-error:"+sig, cs, "render error", "nil")
								continue
							}
							c.Nontrivial()
							fp := errortypes.ToErrFilePos(rerr)
							if fp == nil {
								c.Observe(key, "no position")
								c.Violate("every render error carries a file position", "mismatch", "no-filepos:render "+sig, cs, "ErrFilePos", firstLineOf(rerr.Error()))
								continue
							}
							c.Observe(key, fmt.Sprintf("%s:%d", fp.File(), fp.Line()))
							okLine := false
							for _, l := range ok {
								if fp.Line() == l {
									okLine = true
								}
							}
							switch {
							case fp.File() != entryName:
								c.Violate("a render error carries the file that defines the entry template", "mismatch", "render-file:"+sig, cs, entryName, fmt.Sprintf("%s:%d (%s)", fp.File(), fp.Line(), firstLineOf(rerr.Error())))
							case !okLine:
								c.Violate("a render error carries the line, in the entry file, of the outermost command whose execution failed", "mismatch", "render-line:"+sig, cs, fmt.Sprint(ok), fmt.Sprintf("%d (%s)", fp.Line(), firstLineOf(rerr.Error())))
							}
						}
					}
				}
			}
		}
	}
}

// markWriter fails (once and for all) at the first write that contains the mark; it is a plain
// io.Writer (no WriteByte/WriteString), like a network connection.
type markWriter struct {
	mark   string
	failed bool
}

func (w *markWriter) Write(p []byte) (int, error) {
	if w.failed || strings.Contains(string(p), w.mark) {
		w.failed = true
		return 0, fmt.Errorf("connection reset")
	}
	return len(p), nil
}

// c19WriteFailures: a render error caused by the writer is a render error like any other: it names
// the entry file and the line of the command whose output could not be written (for output
// produced inside a callee: the line of the call in the entry template).
func c19WriteFailures(c *Ctx) {
	for _, eol := range []string{"\n", "\r\n"} {
		for lead := 0; lead <= 3; lead += 3 {
			var lines []string
			for i := 0; i < lead; i++ {
				lines = append(lines, "")
			}
			lines = append(lines, "{namespace w.entry}", "/** @param? n */", "{template .main}")
			marks := map[string]int{}
			add := func(line, mark string) {
				lines = append(lines, line)
				marks[mark] = len(lines)
			}
			add("text T1 here", "T1")
			add("{'P2'}", "P2")
			add("{$n ?: 'P3'} text", "P3")
			add("{if true}inside I4{/if}", "I4")
			add("{call .sub}{param s: 'C5' /}{/call}", "C5")
			marks["S0"] = marks["C5"] // text written by the callee itself
			add("{msg desc=\"d\"}message M7 <b>{$n ?: 'B7'}</b>{/msg}", "M7")
			add("{css 'K8', cls}", "K8")
			add("last T9", "T9")
			lines = append(lines, "{/template}", "/** @param s */", "{template .sub}", "S0[{$s}]", "{/template}")
			text := strings.Join(lines, eol) + eol
			var ms []string
			for m := range marks {
				ms = append(ms, m)
			}
			ms = append(ms, "B7")
			marks["B7"] = marks["M7"]
			sort.Strings(ms)
			for _, m := range ms {
				if !c.Mine() {
					continue
				}
				var rerr, cerr error
				v := vrt.Run(vrt.Options{Fuel: 5000000}, func() {
					tofu, err := soy.NewBundle().AddTemplateString("app/w.soy", text).CompileToTofu()
					if err != nil {
						cerr = err
						return
					}
					rerr = tofu.Render(&markWriter{mark: m}, "w.entry.main", nil)
				})
				cs := c19case{Kind: "render", File: "app/w.soy", Text: text, Fault: "the writer fails at the write that contains " + m, Line: marks[m], EOL: fmt.Sprintf("%q", eol)}
				key := fmt.Sprintf("w|%q|%d|%s", eol, lead, m)
				sig := fmt.Sprintf("write failure:%s:%q", m[:1], eol)
				switch {
				case v.Panic != nil || v.Exhausted:
					c.Observe(key, "panic")
					c.Violate("render returns", "panic", "panic:render "+sig, cs, "error", fmt.Sprint(v.Panic))
					continue
				case cerr != nil:
					c.Observe(key, "compile error")
					c.Violate("fixture compiles", "mismatch", "fixture:write failure", cs, "compiles", cerr.Error())
					continue
				case rerr == nil:
					c.Observe(key, "no error")
					c.Violate("a failing writer fails the render", "mismatch", "no-error:"+sig, cs, "render error", "nil")
					continue
				}
				c.Nontrivial()
				fp := errortypes.ToErrFilePos(rerr)
				if fp == nil {
					c.Observe(key, "no position")
					c.Violate("every render error carries a file position", "mismatch", "no-filepos:render "+sig, cs, "ErrFilePos", firstLineOf(rerr.Error()))
					continue
				}
				c.Observe(key, fmt.Sprintf("%s:%d", fp.File(), fp.Line()))
				switch {
				case fp.File() != "app/w.soy":
					c.Violate("a render error carries the file that defines the entry template", "mismatch", "render-file:"+sig, cs, "app/w.soy", fmt.Sprintf("%s:%d (%s)", fp.File(), fp.Line(), firstLineOf(rerr.Error())))
				case fp.Line() != marks[m] && !(m[0] == 'T' && fp.Line() == marks[m]+1):
					// (a run of template text that ends with a line break ends on the next line, which is
					// where the parser places it)
					c.Violate("a render error carries the line, in the entry file, of the outermost command whose execution failed", "mismatch", "render-line:"+sig, cs, fmt.Sprint(marks[m]), fmt.Sprintf("%d (%s)", fp.Line(), firstLineOf(rerr.Error())))
				}
			}
		}
	}
}

// lineOK: the reported line is the fault line; a fault appended after a tag that is itself
// unterminated by the mutation may be noticed on that line only.
func lineOK(lines []string, li, reported int) bool {
	return reported == li+1
}

// firstPossible: the first line an unterminated construct starting on line li may be reported at.
func firstPossible(lines []string, li int) int { return li + 1 }

func lineClass(li, n int) string {
	switch {
	case li == 0:
		return "first line"
	case li == n-1:
		return "last line"
	case li == n:
		return "extra last line"
	}
	return "inner line"
}

// inCommentRegion: line li belongs to a soydoc or block comment (from its opening line to its closing line).
func inCommentRegion(lines []string, li int) bool {
	open := false
	for i, l := range lines {
		starts := strings.Contains(l, "/*")
		ends := strings.Contains(l, "*/")
		if i == li {
			return open || starts || ends || strings.HasPrefix(strings.TrimSpace(l), "//")
		}
		if starts && !ends {
			open = true
		}
		if ends && !starts {
			open = false
		}
	}
	return false
}
