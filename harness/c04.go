package main

import (
	"bytes"
	"encoding/json"
	"fmt"
	"sort"
	"strings"

	"github.com/robfig/soy"
	"github.com/robfig/soy/data"
	"github.com/robfig/soy/soyhtml"
	"github.com/robfig/soy/soyjs"
	"github.com/robfig/soy/soymsg"
	"github.com/robfig/soy/template"
	"verif/vrt"
)

func init() { register("C04", checkC04) }

type c04case struct {
	Files  map[string]string `json:"files"`
	Entry  string            `json:"entry"`
	Data   string            `json:"data"`
	Msgs   string            `json:"messages,omitempty"`
	Sketch string            `json:"sketch,omitempty"`
}

// dualResult is the outcome of rendering one entry template with several data sets on both backends.
type dualResult struct {
	compileErr string
	jsGenErr   string
	jsLoadErr  string
	goOut      []string
	goErr      []string
	jsOut      []string
	jsErr      []string
	v          vrt.Verdict
	js         string
}

func toJSON(m data.Map) string {
	if m == nil {
		return "{}"
	}
	b, err := json.Marshal(m)
	if err != nil {
		return "{}"
	}
	return string(b)
}

// renderBoth compiles the sources, renders entry with every data set in Go, generates JS for
// every file, loads it into a fresh otto VM and calls the same template there.
func renderBoth(names []string, sources map[string]string, globals data.Map, entries []string, datas []data.Map, ij data.Map, mkBundle func(*template.Registry) soymsg.Bundle) dualResult {
	var r dualResult
	var reg *template.Registry
	var bundle soymsg.Bundle
	r.v = vrt.Run(vrt.Options{Fuel: 50000000}, func() {
		b := soy.NewBundle()
		if len(globals) > 0 {
			b = b.AddGlobalsMap(globals)
		}
		for _, n := range names {
			b = b.AddTemplateString(n, sources[n])
		}
		var err error
		reg, err = b.Compile()
		if err != nil {
			r.compileErr = err.Error()
			return
		}
		if mkBundle != nil {
			bundle = mkBundle(reg)
		}
		tofu := soyhtml.NewTofu(reg)
		for i, d := range datas {
			var buf bytes.Buffer
			rr := tofu.NewRenderer(entries[i%len(entries)]).Inject(ij)
			if bundle != nil {
				rr = rr.WithMessages(bundle)
			}
			err := rr.Execute(&buf, d)
			r.goOut = append(r.goOut, buf.String())
			if err != nil {
				r.goErr = append(r.goErr, firstLineOf(err.Error()))
			} else {
				r.goErr = append(r.goErr, "")
			}
		}
		var js bytes.Buffer
		for _, f := range reg.SoyFiles {
			if err := soyjs.Write(&js, f, soyjs.Options{Messages: bundle}); err != nil {
				r.jsGenErr = err.Error()
				return
			}
		}
		r.js = js.String()
	})
	if r.compileErr != "" || r.jsGenErr != "" || r.v.Panic != nil || r.v.Exhausted {
		return r
	}
	vm, err := newJSVM()
	if err != nil {
		panic(vrt.InfraError{Msg: "otto: " + err.Error()})
	}
	if bundle != nil {
		// plural selection on the JS side: the same rule as the Go bundle (index 0 for one, 1 otherwise)
		jsRun(vm, "soy.$$pluralIndex = function(n) { return n == 1 ? 0 : 1; };")
	}
	if _, err := jsRun(vm, r.js); err != nil {
		r.jsLoadErr = err.Error()
		return r
	}
	ijJSON := ""
	if ij != nil {
		ijJSON = toJSON(ij)
	}
	for i, d := range datas {
		out, err := jsCallTemplate(vm, entries[i%len(entries)], toJSON(d), ijJSON)
		r.jsOut = append(r.jsOut, out)
		if err != nil {
			r.jsErr = append(r.jsErr, firstLineOf(err.Error()))
		} else {
			r.jsErr = append(r.jsErr, "")
		}
	}
	return r
}

// inCommonExpr: the expression lies in the subset both backends define (DESIGN.md §4).
func inCommonExpr(env *Env, e *E) bool {
	ok := true
	countedKeys := map[*E]bool{}
	var walk func(x *E)
	walk = func(x *E) {
		if !ok {
			return
		}
		switch x.K {
		case "bin":
			a, sa := env.Eval(x.A[0])
			switch x.Op {
			case "and", "or":
				// boolean operands only (JS && / || return an operand)
				if sa != stOK || kindOf(a) != "bool" {
					ok = false
					return
				}
				if b, sb := env.Eval(x.A[1]); sb == stOK && kindOf(b) != "bool" {
					ok = false
					return
				}
			case "==", "!=":
				b, sb := env.Eval(x.A[1])
				if sa != stOK || sb != stOK || (kindOf(a) != kindOf(b) && !(isNum(a) && isNum(b))) || kindOf(a) == "list" || kindOf(a) == "map" {
					ok = false
					return
				}
			case "?:":
				// JS emits "(a) != null ? a : b": same for null/undefined
			default:
				b, sb := env.Eval(x.A[1])
				if sa != stOK || sb != stOK {
					ok = false
					return
				}
				ka, kb := kindOf(a), kindOf(b)
				if x.Op == "+" && (ka == "str" || kb == "str") {
					// concatenation: operands must print identically on both sides
					for _, k := range []string{ka, kb} {
						if k == "list" || k == "map" || k == "undef" || k == "float" {
							ok = false
							return
						}
					}
				} else if !(isNum(a) && isNum(b)) {
					ok = false
					return
				}
				if x.Op == "%" && (ka != "int" || kb != "int") {
					ok = false
					return
				}
				if x.Op == "/" {
					if f, ok2 := b.(data.Int); ok2 && f == 0 {
						ok = false
						return
					}
				}
			}
		case "un":
			a, sa := env.Eval(x.A[0])
			if sa != stOK {
				ok = false
				return
			}
			if x.Op == "not" && kindOf(a) != "bool" {
				ok = false
				return
			}
			if x.Op == "-" && !isNum(a) {
				ok = false
				return
			}
		case "tern":
			a, sa := env.Eval(x.A[0])
			if sa != stOK || kindOf(a) == "list" || kindOf(a) == "map" || kindOf(a) == "undef" {
				// [] and {} are truthy in both, but keep to primitives
				if sa != stOK {
					ok = false
					return
				}
			}
			_ = a
		case "call":
			switch x.Op {
			case "length":
				// the number of keys does not depend on their order
				if len(x.A) == 1 && x.A[0].K == "call" && x.A[0].Op == "keys" {
					countedKeys[x.A[0]] = true
				}
			case "keys":
				if v, st := env.Eval(x.A[0]); st != stOK || kindOf(v) != "map" || (len(v.(data.Map)) > 1 && !countedKeys[x]) {
					ok = false
					return
				}
				// otto's for-in visits a property once per object of the prototype chain that has it
				// (keys(augmentMap(['k': 1], ['k': 2])) has two entries there, one in node) and was seen
				// to miss inherited properties of an object without own ones: an engine artefact. The
				// keys of an augmented map are judged only when both maps are non-empty and disjoint.
				if a := x.A[0]; a.K == "call" && a.Op == "augmentMap" && len(a.A) == 2 {
					m1, s1 := env.Eval(a.A[0])
					m2, s2 := env.Eval(a.A[1])
					if s1 != stOK || s2 != stOK || kindOf(m1) != "map" || kindOf(m2) != "map" || len(m1.(data.Map)) == 0 || len(m2.(data.Map)) == 0 {
						ok = false
						return
					}
					for k := range m1.(data.Map) {
						if _, dup := m2.(data.Map)[k]; dup {
							ok = false
							return
						}
					}
				}
			case "round":
				// ties and negative numbers round differently (Math.round vs away from zero): keep to safe values
				if v, st := env.Eval(x.A[0]); st != stOK || !isNum(v) || toF(v) < 0 || isHalf(toF(v)*100) || isHalf(toF(v)*10) || isHalf(toF(v)) {
					ok = false
					return
				}
			case "randomInt", "index", "isFirst", "isLast", "range":
				// range() exists in JavaScript only as the list of a for loop
				ok = false
				return
			}
		case "lit":
			if f, isF := x.Val.(data.Float); isF && (f != f || f >= 1e6 || f <= -1e6) {
				ok = false
				return
			}
		}
		for _, a := range x.A {
			walk(a)
		}
		for _, a := range x.Acc {
			if a.E != nil {
				walk(a.E)
			}
		}
	}
	walk(e)
	if !ok {
		return false
	}
	// every integer that occurs while evaluating must be exactly representable in JavaScript
	var exact func(x *E) bool
	exact = func(x *E) bool {
		if v, st := env.Eval(x); st == stOK {
			if i, isInt := v.(data.Int); isInt && (i > 1<<53 || i < -(1<<53)) {
				return false
			}
			if f, isF := v.(data.Float); isF && (f > 1<<53 || f < -(1<<53)) {
				return false
			}
		}
		for _, a := range x.A {
			if !exact(a) {
				return false
			}
		}
		return true
	}
	if !exact(e) {
		return false
	}
	v, st := env.Eval(e)
	if st != stOK {
		return false
	}
	if _, pst := env.printed(e); pst != stOK {
		return false // e.g. negative zero, exponent-form floats: printed differently by design
	}
	switch kindOf(v) {
	case "list", "map", "undef":
		return false // printed differently by design (Array.toString / [object Object])
	case "float":
		f := toF(v)
		if f != f || f >= 1e6 || f <= -1e6 || (f != 0 && f < 1e-4 && f > -1e-4) {
			return false
		}
	}
	return true
}

func checkC04(c *Ctx) {
	env := exprEnv()
	// ---- Part 1: expressions, batched 40 templates per file ----
	type item = exprItem
	var batch []item
	flush := func() {
		if len(batch) == 0 {
			return
		}
		runC04Exprs(c, append([]exprItem{}, batch...))
		batch = batch[:0]
	}
	seenSrc := map[string]bool{}
	emit := func(stratum string, e *E) {
		if !inCommonExpr(env, e) {
			return
		}
		for _, mode := range []int{0, 1} {
			src := e.src(mode)
			if seenSrc[src] {
				continue
			}
			seenSrc[src] = true
			if !c.Mine() {
				continue
			}
			batch = append(batch, item{e, src})
			if len(batch) >= 40 {
				flush()
			}
		}
	}
	exprS1(emit)
	exprS2(emit, c.Thorough())
	exprS4(emit, 2)
	exprS5(emit)
	exprS6(emit)
	for _, e := range lexShapes() {
		emit("S3", e)
	}
	flush()
	// one global name bound to different values in successive bundles of one process (globals belong
	// to a bundle, not to the process): each bundle in its own compilation and its own generation.
	// (one case: the whole sequence runs in one worker process)
	sameWorker := c.Mine()
	for round := 0; sameWorker && round < 2; round++ {
		for _, gv := range []data.Value{data.Int(1), data.String("two"), data.Float(3.5), data.Bool(true), data.String("x y"), data.Int(1)} {
			g := glob("G.same", gv)
			for _, e := range []*E{g, bin("+", g, lit("'!'", data.String("!"))), tern(bin("==", g, lit("1", data.Int(1))), lit("'one'", data.String("one")), g)} {
				if inCommonExpr(env, e) {
					runC04Exprs(c, []exprItem{{e, e.src(0)}})
				}
			}
		}
	}

	// ---- Part 1b: data-driven operands (S7): every form over template parameters x every binding in the common subset ----
	for _, f := range s7Forms() {
		if !c.Mine() {
			continue
		}
		var ds []data.Map
		for _, d := range s7Bindings() {
			if inCommonExpr(&Env{Vars: d, IJ: exprIJ}, f) && jsonSafe(d) {
				ds = append(ds, d)
			}
		}
		if len(ds) == 0 {
			continue
		}
		src := "{namespace v}\n/**\n * @param? p\n * @param? q\n */\n{template .m}\nA{" + f.String() + "}B{if false}{$p}{$q}{/if}\n{/template}\n"
		r := renderBoth([]string{"t.soy"}, map[string]string{"t.soy": src}, nil, []string{"v.m"}, ds, exprIJ, nil)
		compareBoth(c, r, c04case{Files: map[string]string{"t.soy": src}, Entry: "v.m", Sketch: f.String()}, ds, "S7:"+f.String(), func(i int) (string, bool) {
			w, st := (&Env{Vars: ds[i], IJ: exprIJ}).printed(f)
			return "A" + w + "B", st == stOK
		})
	}

	// ---- Part 2: commands, scoping and calls (C02 grammar), every data set ----
	lib := libFiles()
	datas := c02Data()
	nBodies := 0
	always := false
	handle := func(body []*Cmd, variant int) {
		nBodies++
		if !always && !c.Thorough() && nBodies%4 != 0 {
			return
		}
		if !c.Mine() {
			return
		}
		if hasMsgViolation(body) || usesLoopFuncOutsideLoop(body) {
			if always {
				c.Count("always_run_bodies_dropped_loopfunc", 1)
			}
			return
		}
		names := map[string]bool{}
		usedNames(body, names)
		delete(names, "ij")
		var pn []string
		for n := range names {
			pn = append(pn, n)
		}
		sort.Strings(pn)
		var params []Param
		for _, n := range pn {
			params = append(params, Param{Name: n, Optional: n == "x"})
		}
		t := &Tmpl{NS: "app.main", Name: "entry", Params: params, Body: body, Header: variant&1 == 1}
		main := &File{Name: "main.soy", NS: "app.main", Aliases: []string{"lib.deep"}, Tmpls: []*Tmpl{t}}
		files := withLib(main, lib)
		if always && checkRules(files)["unused-param"] {
			// the hand-written bodies bind some of their names themselves: declare only the names
			// that are free in the body (dropping a declaration must not leave a reference unbound)
			for i := 0; i < len(t.Params); {
				keep := t.Params
				t.Params = append(append([]Param{}, keep[:i]...), keep[i+1:]...)
				if rs := checkRules(files); rs["unbound-reference"] {
					t.Params = keep
					i++
				}
			}
			params = t.Params
		}
		if rs := checkRules(files); len(rs) > 0 {
			if always {
				c.Count("always_run_bodies_dropped_rules", 1)
				c.Note("always_run_rule", fmt.Sprint(rs))
			}
			return
		}
		var ds []data.Map
		seen := map[string]bool{}
		for _, d := range datas {
			m := data.Map{}
			for _, p := range params {
				if v, ok := d[p.Name]; ok {
					m[p.Name] = v
				}
			}
			k := dataKey(m)
			// common subset: the reference must define the output, and no list/map is printed
			x := newRefExec(files, exprIJ)
			want, st := x.run("app.main.entry", m)
			if !seen[k] && st == stOK && !strings.ContainsAny(want, "[{") {
				seen[k] = true
				ds = append(ds, m)
			}
		}
		if len(ds) == 0 {
			if always {
				c.Count("always_run_bodies_dropped_nodata", 1)
			}
			return
		}
		if always {
			c.Count("always_run_bodies_compared", 1)
		}
		srcs := map[string]string{"main.soy": main.src()}
		r := renderBoth(libSrcs(srcs, lib), srcs, nil, []string{"app.main.entry"}, ds, exprIJ, nil)
		compareBoth(c, r, c04case{Files: map[string]string{"main.soy": srcs["main.soy"]}, Entry: "app.main.entry", Sketch: skCmds(body)}, ds, "cmd:"+skCmds(body), func(i int) (string, bool) {
			x := newRefExec(files, exprIJ)
			w, st := x.run("app.main.entry", ds[i])
			return w, st == stOK
		})
	}
	enumBodies(c.Thorough(), handle)
	// component-style nesting (always run): a call inside the block param of a call, with the same
	// param key at each level, directly, in a loop and three levels deep
	always = true
	show := func(key string, content ...*Cmd) *Cmd {
		return &Cmd{K: "call", Call: &CallSpec{Name: "deep.show", Target: "lib.deep.show", Params: []CallParam{{Key: key, Content: content}}}}
	}
	for _, body := range [][]*Cmd{
		{show("x", txt("a"), show("x", txt("b"), pr(vr("y"))), txt("c"))},
		{show("y", txt("a"), show("y", txt("b")), txt("c"), show("y", pr(vr("x"))))},
		{show("x", txt("("), &Cmd{K: "foreach", Var: "y", E: vr("l"), Body: []*Cmd{show("x", pr(vr("y")))}}, txt(")"))},
		{show("x", txt("1"), show("x", txt("2"), show("x", txt("3"), pr(vr("y"))), txt("4")), txt("5")), pr(vr("y"))},
		{{K: "letc", Var: "y", Body: []*Cmd{txt("p"), show("x", txt("q"), &Cmd{K: "letc", Var: "y", Body: []*Cmd{txt("r")}}, pr(vr("y"))), txt("s")}}, pr(vr("y"))},
		// variables named like the names a generator derives for a loop over $y
		{{K: "foreach", Var: "y", E: vr("l"), Body: []*Cmd{{K: "let", Var: "yIndex", E: bin("+", call("index", vr("y")), I(10))}, {K: "let", Var: "yList", E: S("w")}, txt("("), pr(vr("y")), pr(vr("yIndex")), pr(vr("yList")), txt(")")}}},
		{{K: "letc", Var: "yList", Body: []*Cmd{txt("L")}}, {K: "let", Var: "yLimit", E: I(7)}, {K: "for", Var: "y", E: call("range", I(3)), Body: []*Cmd{pr(vr("y")), pr(vr("yLimit")), pr(vr("yList"))}}, {K: "let", Var: "y1", E: I(1)}, {K: "let", Var: "y", E: I(2)}, pr(vr("y1")), pr(vr("y"))},
	} {
		handle(body, 0)
		handle(body, 1)
	}

	// ---- Part 3: messages with and without bundles, plurals, autoescape modes x directives ----
	msgBodies := []string{
		"{msg desc=\"d\"}Hello <b>{$a}</b> and {$b}!{/msg}",
		"{msg desc=\"d\"}{$a}{$b}{$a}{/msg}",
		"{msg desc=\"d\" meaning=\"m\"}x{$a.k}y{$b}z{/msg}",
		"{msg desc=\"d\"}{plural $n}{case 0}none{case 1}one {$a}{default}{$n} items of {$b}{/plural}{/msg}",
		"{msg desc=\"d\"}{plural $n}{case 1}single{default}many{/plural}{/msg}",
		"{foreach $i in $l}{msg desc=\"d\"}item {$i}{/msg};{/foreach}",
		"{msg desc=\"d\"}call {call .sub data=\"all\"/} end{/msg}",
		"[{call .withmsg data=\"all\"/}]{foreach $i in $l}{call .withmsg}{param a: $i /}{/call}{/foreach}",
		"{let $w}{call .withmsg data=\"all\"/}{/let}{$w|noAutoescape}{call .relay data=\"all\"/}",
	}
	mdatas := []data.Map{
		{"a": data.String("A<"), "b": data.String("B&"), "n": data.Int(0), "l": data.List{data.Int(1), data.Int(2)}},
		{"a": data.Map{"k": data.String("ak")}, "b": data.Int(7), "n": data.Int(1), "l": data.List{}},
		{"a": data.String("x"), "b": data.String("y"), "n": data.Int(5), "l": data.List{data.String("<")}},
	}
	bundles := []struct {
		name string
		mk   func(*template.Registry) soymsg.Bundle
	}{
		{"none", nil},
		{"identity", func(r *template.Registry) soymsg.Bundle { return identityBundleFor(r) }},
		{"reversed", func(r *template.Registry) soymsg.Bundle { return reversedBundleFor(r) }},
	}
	for _, mb := range msgBodies {
		for _, bd := range bundles {
			for _, ns := range []string{"", "false"} {
				if !c.Mine() {
					continue
				}
				nsattr := ""
				if ns != "" {
					nsattr = " autoescape=\"" + ns + "\""
				}
				src := "{namespace m" + nsattr + "}\n/**\n * @param? a\n * @param? b\n * @param? n\n * @param? l\n */\n{template .t}\n" + mb + "{if false}{$a}{$b}{$n}{$l}{/if}\n{/template}\n/** @param? a */\n{template .sub}\n[{$a ?: 'na'}]\n{/template}\n" +
					"/** @param? a */\n{template .withmsg}\n{msg desc=\"in callee\"}callee {$a ?: 'na'} text <b>bold</b>{/msg}\n{/template}\n/** @param? a */\n{template .relay}\nr:{call .withmsg data=\"all\"/}\n{/template}\n"
				var ds []data.Map
				for _, d := range mdatas {
					if strings.Contains(mb, "$a.k") != (kindOf(d["a"]) == "map") {
						continue
					}
					ds = append(ds, d)
				}
				r := renderBoth([]string{"m.soy"}, map[string]string{"m.soy": src}, nil, []string{"m.t"}, ds, nil, bd.mk)
				compareBoth(c, r, c04case{Files: map[string]string{"m.soy": src}, Entry: "m.t", Msgs: bd.name}, ds, "msg:"+bd.name+":"+mb, nil)
			}
		}
	}
	dirs := []string{"", "|escapeHtml", "|noAutoescape", "|id", "|truncate:3", "|truncate:5,false", "|changeNewlineToBr", "|insertWordBreaks:3", "|truncate:4|escapeHtml", "|truncate:6|changeNewlineToBr", "|noAutoescape|truncate:4"}
	vals := []data.Value{data.String("a<b>&\"'c"), data.String("line1\nline2\r\nline3"), data.String("longwordwithoutspaces and more"), data.String(""), data.Int(12345), data.Bool(true), data.Null{}, data.String("plain")}
	for _, ns := range []string{"", "true", "false", "contextual"} {
		for _, tm := range []string{"", "true", "false"} {
			for _, d := range dirs {
				if !c.Mine() {
					continue
				}
				nsattr, tmattr := "", ""
				if ns != "" {
					nsattr = " autoescape=\"" + ns + "\""
				}
				if tm != "" {
					tmattr = " autoescape=\"" + tm + "\""
				}
				src := "{namespace e" + nsattr + "}\n/** @param v */\n{template .t" + tmattr + "}\n[{$v" + d + "}]{call o.show data=\"all\"/}{let $w}{$v" + d + "}{/let}{$w}\n{/template}\n"
				other := "{namespace o}\n/** @param v */\n{template .show}\n({$v" + d + "})\n{/template}\n"
				var ds []data.Map
				for _, v := range vals {
					if (strings.Contains(d, "insertWordBreaks") || strings.Contains(d, "changeNewlineToBr")) && (tm == "false" || (tm == "" && ns == "false")) {
						continue // under autoescape=false the Go directives still escape, the JS ones follow the mode: documented difference
					}
					ds = append(ds, data.Map{"v": v})
				}
				if len(ds) == 0 {
					continue
				}
				r := renderBoth([]string{"e.soy", "o.soy"}, map[string]string{"e.soy": src, "o.soy": other}, nil, []string{"e.t"}, ds, nil, nil)
				compareBoth(c, r, c04case{Files: map[string]string{"e.soy": src, "o.soy": other}, Entry: "e.t"}, ds, "escape:"+effKey(ns, tm)+":"+d, nil)
			}
		}
	}
}

func usesLoopFuncOutsideLoop(cs []*Cmd) bool { return false }

type exprItem = struct {
	e   *E
	src string
}

func runC04Exprs(c *Ctx, items []exprItem) {
	env := exprEnv()
	var src strings.Builder
	src.WriteString("{namespace x}\n")
	globals := data.Map{}
	var entries []string
	var datas []data.Map
	for i, it := range items {
		vars := usedVars(it.e)
		it.e.globals(globals)
		fmt.Fprintf(&src, "%s{template .t%d}\nA{%s}B\n{/template}\n", soydocFor(vars), i, it.src)
		entries = append(entries, fmt.Sprintf("x.t%d", i))
		d := data.Map{}
		for _, v := range vars {
			if val, ok := exprEnvVars[v]; ok {
				d[v] = val
			}
		}
		datas = append(datas, d)
	}
	r := renderBoth([]string{"x.soy"}, map[string]string{"x.soy": src.String()}, globals, entries, datas, exprIJ, nil)
	if (r.compileErr != "" || r.jsGenErr != "" || r.jsLoadErr != "") && len(items) > 1 {
		for _, it := range items {
			runC04Exprs(c, []exprItem{it})
		}
		return
	}
	for i, it := range items {
		cs := c04case{Files: map[string]string{"x.soy": fmt.Sprintf("{namespace x}\n%s{template .t0}\nA{%s}B\n{/template}\n", soydocFor(usedVars(it.e)), it.src)}, Entry: "x.t0", Data: dataKey(datas[i]), Sketch: sketch(it.e)}
		key := "expr\x00" + it.src
		sig := "expr:" + sketch(it.e)
		want, st := env.printed(it.e)
		switch {
		case r.v.Panic != nil || r.v.Exhausted:
			c.Observe(key, "panic")
			c.Violate("renders", "panic", "panic:"+sig, cs, "output", fmt.Sprint(r.v.Panic))
		case r.compileErr != "":
			c.Observe(key, "compile error")
			c.Count("go_compile_rejected", 1) // C01's business
		case r.jsGenErr != "":
			c.Observe(key, "js generation error")
			c.Nontrivial()
			c.Violate("the JavaScript generator translates every template of the common subset", "mismatch", "jsgen:"+sig, cs, "JavaScript", r.jsGenErr)
		case r.jsLoadErr != "":
			c.Observe(key, "js load error")
			c.Nontrivial()
			c.Violate("the generated JavaScript loads", "mismatch", "jsload:"+sig, cs, "valid script", r.jsLoadErr+"\n"+clip(r.js))
		default:
			goOut, jsOut := normEntities(r.goOut[i]), normEntities(r.jsOut[i])
			c.Observe(key, goOut+"|"+jsOut+"|"+fmt.Sprint(r.goErr[i] != "", r.jsErr[i] != ""))
			c.Nontrivial()
			blame := ""
			if st == stOK {
				blame = " (reference: " + "A" + want + "B)"
			}
			switch {
			case r.goErr[i] != "" && r.jsErr[i] != "":
			case r.goErr[i] != "" || r.jsErr[i] != "":
				c.Violate("both backends succeed or fail together", "mismatch", "one-sided-error:"+sig, cs, "Go: "+goOut+" "+r.goErr[i], "JS: "+jsOut+" "+r.jsErr[i]+blame)
			case goOut != jsOut:
				c.Violate("the generated JavaScript returns exactly the string the Go renderer writes", "mismatch", "differ:"+sig, cs, "Go: "+goOut, "JS: "+jsOut+blame)
			}
		}
		if c.res.Cases%5003 == 0 {
			c.Sample(map[string]any{"expr": it.src, "go": r.goOut, "js": r.jsOut})
		}
	}
}

func compareBoth(c *Ctx, r dualResult, cs c04case, ds []data.Map, sig string, ref func(i int) (string, bool)) {
	key := sig + "\x00" + cs.Files[firstKey(cs.Files)]
	switch {
	case r.v.Panic != nil || r.v.Exhausted:
		c.Observe(key, "panic")
		c.Violate("renders", "panic", "panic:"+sig, cs, "output", fmt.Sprint(r.v.Panic))
		return
	case r.compileErr != "":
		c.Observe(key, "compile error")
		c.Count("go_compile_rejected", 1)
		return
	case r.jsGenErr != "":
		c.Observe(key, "js generation error")
		c.Nontrivial()
		c.Violate("the JavaScript generator translates every template of the common subset", "mismatch", "jsgen:"+sig, cs, "JavaScript", r.jsGenErr)
		return
	case r.jsLoadErr != "":
		c.Observe(key, "js load error")
		c.Nontrivial()
		c.Violate("the generated JavaScript loads", "mismatch", "jsload:"+sig, cs, "valid script", r.jsLoadErr+"\n"+clip(r.js))
		return
	}
	obs := ""
	for i, d := range ds {
		goOut, jsOut := normEntities(r.goOut[i]), normEntities(r.jsOut[i])
		obs += goOut + "|" + jsOut + "|"
		cs.Data = dataKey(d)
		blame := ""
		if ref != nil {
			if w, ok := ref(i); ok {
				blame = " (reference: " + w + ")"
			}
		}
		switch {
		case r.goErr[i] != "" && r.jsErr[i] != "":
		case r.goErr[i] != "" || r.jsErr[i] != "":
			c.Violate("both backends succeed or fail together", "mismatch", "one-sided-error:"+sig, cs, "Go: "+goOut+" "+r.goErr[i], "JS: "+jsOut+" "+r.jsErr[i]+blame)
		case goOut != jsOut:
			c.Violate("the generated JavaScript returns exactly the string the Go renderer writes", "mismatch", "differ:"+sig, cs, "Go: "+goOut, "JS: "+jsOut+blame)
		}
	}
	c.Observe(key, obs)
	c.Nontrivial()
	c.Count("dual_renders", int64(len(ds)))
	if c.Index()%997 == 0 {
		c.Sample(map[string]any{"files": cs.Files, "entry": cs.Entry, "go": r.goOut, "js": r.jsOut})
	}
}

func firstKey(m map[string]string) string {
	var ks []string
	for k := range m {
		ks = append(ks, k)
	}
	sort.Strings(ks)
	if len(ks) == 0 {
		return ""
	}
	return ks[0]
}

// jsonSafe: the binding survives the JSON transport to the JS side unchanged (ASCII strings only).
func jsonSafe(d data.Map) bool {
	s, _ := refStr(d)
	return isASCII(s)
}
