package main

import (
	"fmt"
	"reflect"
	"sort"
	"strings"

	"github.com/robfig/soy/ast"
	"github.com/robfig/soy/data"
	"github.com/robfig/soy/parse"
	"verif/vrt"
)

func init() { register("C17", checkC17) }

var posType = reflect.TypeOf(ast.Pos(0))

// nodeDigest is a canonical structural description of a tree ignoring positions
// and the original spelling of string literals.
func nodeDigest(n any) string {
	var b strings.Builder
	digestValue(reflect.ValueOf(n), &b)
	return b.String()
}

func digestValue(v reflect.Value, b *strings.Builder) {
	if !v.IsValid() {
		b.WriteString("nil")
		return
	}
	switch v.Kind() {
	case reflect.Interface, reflect.Ptr:
		if v.IsNil() {
			b.WriteString("nil")
			return
		}
		digestValue(v.Elem(), b)
	case reflect.Struct:
		t := v.Type()
		b.WriteString(t.Name() + "{")
		for i := 0; i < v.NumField(); i++ {
			f := t.Field(i)
			if f.Type == posType {
				continue
			}
			if t.Name() == "StringNode" && f.Name == "Quoted" {
				continue
			}
			b.WriteString(f.Name + ":")
			digestValue(v.Field(i), b)
			b.WriteString(";")
		}
		b.WriteString("}")
	case reflect.Slice:
		if v.Type().Elem().Kind() == reflect.Uint8 {
			fmt.Fprintf(b, "%q", v.Bytes())
			return
		}
		b.WriteString("[")
		for i := 0; i < v.Len(); i++ {
			digestValue(v.Index(i), b)
			b.WriteString(",")
		}
		b.WriteString("]")
	case reflect.Map:
		keys := v.MapKeys()
		sort.Slice(keys, func(i, j int) bool { return fmt.Sprint(keys[i]) < fmt.Sprint(keys[j]) })
		b.WriteString("map[")
		for _, k := range keys {
			fmt.Fprintf(b, "%q=", fmt.Sprint(k))
			digestValue(v.MapIndex(k), b)
			b.WriteString(",")
		}
		b.WriteString("]")
	case reflect.String:
		fmt.Fprintf(b, "%q", v.String())
	case reflect.Float64, reflect.Float32:
		fmt.Fprintf(b, "f%v", v.Float())
	default:
		fmt.Fprintf(b, "%v", v.Interface())
	}
}

type rtCase struct {
	Kind   string `json:"kind"` // expr | print
	Source string `json:"source"`
	Sketch string `json:"sketch"`
}

func checkC17(c *Ctx) {
	texts := map[string]string{} // printed text -> structure digest (injectivity)
	one := func(kind, src, sk string) {
		if !c.Mine() {
			return
		}
		rc := rtCase{kind, src, sk}
		var t1, t2, t2w ast.Node
		var err1, err2 error
		var printed string
		var pan any
		v := vrt.Run(vrt.Options{Fuel: 500000}, func() {
			defer func() {
				if r := recover(); r != nil {
					if _, ok := r.(*vrt.Abort); ok {
						panic(r)
					}
					pan = r
				}
			}()
			if kind == "expr" {
				t1, err1 = parse.Expr(src)
			} else {
				t1, err1 = parsePrint(src)
			}
			if err1 != nil {
				return
			}
			printed = t1.String()
			if kind == "expr" {
				t2, err2 = parse.Expr(printed)
				if err2 == nil {
					// parse.Expr stops at the first token that cannot continue the expression and
					// ignores the rest; inside brackets the whole text has to be consumed.
					var w ast.Node
					w, err2 = parse.Expr("[" + printed + "]")
					if l, ok := w.(*ast.ListLiteralNode); err2 == nil && (!ok || len(l.Items) != 1) {
						err2 = fmt.Errorf("[%s] does not parse to a one-element list", printed)
					} else if err2 == nil {
						t2w = l.Items[0]
					}
				}
			} else {
				t2, err2 = parsePrint(printed)
			}
		})
		obs := ""
		switch {
		case v.Exhausted:
			obs = "hang"
		case pan != nil || v.Panic != nil:
			obs = fmt.Sprintf("panic:%v%v", pan, v.Panic)
		case err1 != nil:
			obs = "source rejected"
		case err2 != nil:
			obs = "printed text rejected: " + printed
		default:
			obs = "printed:" + printed
		}
		// printed text of a map literal with >1 keys depends on map order in the plain build
		// (a C13 matter); digest the structure instead of the text for the cross-build hash.
		c.Observe(kind+"\x00"+src, obsForHash(obs, t1))
		sig := kind + ":" + sk
		switch {
		case v.Exhausted:
			c.Violate("terminates", "hang", "hang:"+sig, rc, "returns", "fuel exhausted")
		case pan != nil || v.Panic != nil:
			c.Violate("no panic", "panic", "panic:"+sig, rc, "a string", obs)
		case err1 != nil:
			// the fully parenthesised source is valid Soy: C01's business, counted here only.
			c.Count("source_rejected", 1)
		case err2 != nil:
			c.Nontrivial()
			c.Violate("the printed text parses again", "mismatch", "reparse-fails:"+sig, rc, "String() of the tree parses", fmt.Sprintf("String() = %q: %v", printed, err2))
		default:
			c.Nontrivial()
			d1, d2 := nodeDigest(t1), nodeDigest(t2)
			if t2w != nil && d1 == d2 {
				d2 = nodeDigest(t2w)
			}
			if d1 != d2 {
				c.Violate("the printed text parses to a structurally identical tree", "mismatch", "different-tree:"+sig, rc, "same tree", fmt.Sprintf("String() = %q parses to a different tree", printed))
			} else if prev, ok := texts[printed]; ok && prev != d1 {
				c.Violate("two expressions print the same text only if they are the same expression", "mismatch", "not-injective:"+sig, rc, "distinct text", fmt.Sprintf("%q is printed for two different trees", printed))
			}
			texts[printed] = d1
		}
		if c.Index()%7919 == 0 {
			c.Sample(map[string]any{"case": rc, "observed": obs})
		}
	}
	emit := func(stratum string, e *E) {
		one("expr", e.src(1), sketch(e))
		one("expr", e.src(0), sketch(e))
	}
	exprS1(emit)
	exprS2(emit, c.Thorough())
	exprS4(emit, 2)
	exprS5(emit)
	exprS6(emit)
	for _, e := range lexShapes() {
		emit("S3", e)
		// print commands with directives and arguments
		for _, d := range []string{"", "|id", "|noAutoescape", "|truncate:5", "|truncate:5,true", "|truncate:-1 + 3,false|escapeHtml", "|insertWordBreaks:2|changeNewlineToBr", "|escapeUri|escapeJsString", "|truncate:(1 + 2) * 3"} {
			one("print", "{"+e.src(0)+d+"}", sketch(e)+d)
			one("print", "{print "+e.src(1)+d+"}", sketch(e)+d)
		}
	}
	// depth-3 shapes: every operator triple over one operand triple (all parenthesisations that differ)
	tr := exprTriples()[0]
	ops := binOps
	if !c.Thorough() {
		ops = []string{"*", "+", "-", "<", "==", "and", "or", "?:"}
	}
	for _, o1 := range ops {
		for _, o2 := range ops {
			for _, o3 := range ops {
				a, b, d := tr[0], tr[1], tr[2]
				for _, e := range []*E{
					bin(o3, bin(o2, bin(o1, a, b), d), a), bin(o1, a, bin(o2, b, bin(o3, d, a))), bin(o2, bin(o1, a, b), bin(o3, d, a)),
					bin(o1, a, bin(o3, bin(o2, b, d), a)), bin(o3, bin(o1, a, bin(o2, b, d)), a),
					un("-", bin(o1, un("not", bin(o2, a, b)), d)), tern(bin(o1, a, b), bin(o2, b, d), bin(o3, d, a)),
					bin(o1, tern(a, b, d), tern(bin(o2, a, b), d, bin(o3, a, d))),
				} {
					one("expr", e.src(1), sketch(e))
				}
			}
		}
	}
	// literals needing care
	for _, s := range []string{"''", `'\''`, `'\\'`, `'a\nb\tc\r'`, `'é'`, `'é'`, `'}'`, `'"'`, "1e3", "1.5e-2", "2.0", "100.0", "1e21", "1e-7", "6.02e23", "2.5e300", "-1e22", "1e20", "123456789012345678901.0", "1e21 * $x", "[1e21, 2]", "f(1e22)", "$a[1e21]", "1.5e-300", "1e21 ? 1e22 : 1e23",
		// strings and map keys with characters that are not printable, in and outside the basic plane
		"'\U000E0001'", "['\U000E0001': 1]", "['\U000E0001': 1, '\uE0001': 2]", "['\u200b': 1]", "['a\x01b': 2]", "['\U0010FFFF\U0001F600': '\U000F0000']", "'\x7f\u0085'", "['\ufffe': [1]]", "0.000001", "123456789.5", "-2.0", "-0", "0", "-9223372036854775807",
		"0x1F", "[]", "[:]", "[1]", "[1, [2, [3]]]", "['a': 1]", "['a': 1, 'b': ['c': [:]]]", `['it\'s': 1]`, `['a b': 1, 'c,d': 2, 'e:f': 3]`, "['z': 1, 'y': 2, 'x': 3, 'w': 4]",
		"f()", "f(1)", "f(1, 'a', $x)", "f(g(h(1)))", "a.b.c", "$ij.a", "$a.b?.c[0]?[1].2?.3", "$a[$b[$c]]", "$a['k']", "$a[1 + 2]", "$a?[not $b]",
		"[1 + 2, $a ? 1 : 2]", "['k': 1 + 2, 'j': $a ?: 3]", "f(1 + 2, not $a)", "$a[$b ? 1 : 2]", "not f(1)", "-f(1)", "-$a.b", "not $a.b", "- -1", "-(-1)", "- - $a", "not not $a",
		"$a ? [1] : [2]", "$a ? [:] : ['k': 1]", "$a ?: [1]", "($a ? $b : $c) ? 1 : 2", "$a ? ($b ? 1 : 2) : 3", "$a ? 1 : ($b ? 2 : 3)", "($a ?: $b) ?: $c", "$a ?: ($b ?: $c)", "$a ? $b ?: 1 : 2",
	} {
		one("expr", s, "lit:"+s)
	}
}

// obsForHash keeps the cross-build observation independent of Go map order.
func obsForHash(obs string, t1 ast.Node) string {
	if strings.HasPrefix(obs, "printed:") && t1 != nil && strings.Contains(obs, "': ") {
		return "printed-map:" + nodeDigest(t1)
	}
	if strings.Contains(obs, "': ") {
		return "map-literal-text"
	}
	return obs
}

// parsePrint parses a print tag inside a template and returns the PrintNode.
func parsePrint(tag string) (ast.Node, error) {
	f, err := parse.SoyFile("p.soy", "{namespace p}\n{template .t}\n"+tag+"\n{/template}\n")
	if err != nil {
		return nil, err
	}
	for _, n := range f.Body {
		if t, ok := n.(*ast.TemplateNode); ok {
			for _, b := range t.Body.Nodes {
				if p, ok := b.(*ast.PrintNode); ok {
					return p, nil
				}
			}
		}
	}
	return nil, fmt.Errorf("no print node in %q", tag)
}

var _ = data.Int(0)
