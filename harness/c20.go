package main

import (
	"fmt"
	"math"
	"reflect"
	"sort"
	"time"
	"unicode"
	"unicode/utf8"

	"github.com/robfig/soy/data"
	"verif/vrt"
)

func init() { register("C20", checkC20) }

// fixtures -------------------------------------------------------------------

type valMarshaler struct{ N int }

func (m valMarshaler) MarshalValue() data.Value {
	return data.String(fmt.Sprintf("val-marshaled-%d", m.N))
}

type ptrMarshaler struct{ N int }

func (m *ptrMarshaler) MarshalValue() data.Value { return data.Map{"ptrMarshaled": data.Int(m.N)} }

type inner struct {
	A  int
	bb string
	Cc []string
}

type Embedded struct{ EmbField string }

type outer struct {
	Name    string
	URLPath string
	private int
	Ptr     *inner
	NilPtr  *inner
	Inner   inner
	Any     interface{}
	List    []interface{}
	M       map[string]int
	Embedded
	When time.Time
	PM   *ptrMarshaler
	VM   valMarshaler
	F32  float32
	U8   uint8
	Élan string
}

type c20case struct {
	Value string `json:"go_value"`
	Opts  string `json:"struct_options"`
	Other string `json:"other_value,omitempty"`
}

var c20Time = time.Date(2020, 2, 29, 13, 14, 15, 0, time.UTC)

func c20Leaves() []interface{} {
	var nilPtr *inner
	var nilSlice []int
	var nilMap map[string]int
	var nilIface interface{}
	return []interface{}{
		nil, true, false,
		int(0), int(-7), int8(math.MinInt8), int8(math.MaxInt8), int16(math.MinInt16), int16(math.MaxInt16), int32(math.MinInt32), int32(math.MaxInt32),
		int64(math.MinInt64), int64(math.MaxInt64), int64(1) << 53,
		// integers that no float64 represents exactly, next to the floats they round to
		int64(1)<<53 + 1, -(int64(1) << 53) - 1, int64(math.MaxInt64) - 1, float64(int64(1) << 53), -float64(int64(1) << 53), math.Pow(2, 63), -math.Pow(2, 63),
		uint(0), uint(5), uint8(255), uint16(65535), uint32(math.MaxUint32), uint64(math.MaxInt64), uint64(math.MaxInt64) + 1, uint64(math.MaxUint64),
		float32(0), float32(1.5), float32(math.MaxFloat32), float64(0), math.Copysign(0, -1), 1.5, -2.25, 7.0, math.NaN(), math.Inf(1), math.Inf(-1), math.MaxFloat64, 5e-324,
		"", "a", "é", "<b>&", "0", "false",
		c20Time, &c20Time,
		nilPtr, nilSlice, nilMap, nilIface,
		valMarshaler{3}, &valMarshaler{4}, &ptrMarshaler{5}, ptrMarshaler{6},
		data.Int(9), data.String("pre-converted"), data.List{data.Int(1)}, data.Map{"k": data.Null{}}, data.Null{}, data.Float(2.5),
		inner{A: 1, bb: "hidden", Cc: []string{"x"}}, &inner{A: 2},
	}
}

// c20Full (thorough tier): wrap every level-1 value again, under all eight wrappers.
var c20Full bool

func c20Values() []interface{} {
	leaves := c20Leaves()
	out := append([]interface{}{}, leaves...)
	wrap := func(v interface{}) []interface{} {
		vv := v
		return []interface{}{
			[]interface{}{v}, []interface{}{v, v}, map[string]interface{}{"k": v}, map[string]interface{}{"a": v, "b": 1}, &vv,
			outer{Name: "n", URLPath: "/p", private: 1, Any: v, List: []interface{}{v}, M: map[string]int{"z": 1}, Embedded: Embedded{"e"}, When: c20Time, PM: &ptrMarshaler{7}, VM: valMarshaler{8}, F32: 0.5, U8: 200, Élan: "é"},
			struct{ X interface{} }{v}, struct {
				Y interface{}
				z interface{}
			}{v, v},
		}
	}
	var lvl1 []interface{}
	for _, l := range leaves {
		lvl1 = append(lvl1, wrap(l)...)
	}
	out = append(out, lvl1...)
	// second level: wrap a selection of level-1 values again
	for i, v := range lvl1 {
		if c20Full {
			out = append(out, wrap(v)...) // thorough: every level-1 value under every wrapper
		} else if i%3 == 0 {
			out = append(out, wrap(v)[:5]...)
		}
	}
	// typed containers
	out = append(out, []int{1, 2}, []string{}, []float64{0.5}, []uint64{1, math.MaxInt64}, [][]int{{1}, nil}, []*inner{{A: 1}, nil}, []inner{{A: 3}},
		map[string]string{"a": "b"}, map[string][]int{"l": {1}}, map[string]*inner{"p": {A: 1}, "n": nil}, map[string]interface{}{}, map[string]map[string]int{"m": {"k": 1}},
		[]valMarshaler{{1}}, []*ptrMarshaler{{2}}, map[string]*ptrMarshaler{"m": {3}}, []time.Time{c20Time}, struct{}{}, &struct{ A, B int }{1, 2})
	return out
}

// reference conversion ---------------------------------------------------------

type refConvErr struct{ msg string }

// refConvert is an independent definition of the conversion the statement describes.
// unspecified=true marks inputs outside the statement (unsigned values above MaxInt64 cannot be
// represented: those are checked separately).
func refConvert(o data.StructOptions, value interface{}) (out data.Value, unspecified bool) {
	if dv, ok := value.(data.Value); ok {
		return dv, false
	}
	if value == nil {
		return data.Null{}, false
	}
	if m, ok := value.(data.Marshaler); ok {
		if rv := reflect.ValueOf(value); rv.Kind() == reflect.Ptr && rv.IsNil() {
			return nil, true
		}
		return m.MarshalValue(), false
	}
	v := reflect.ValueOf(value)
	for v.Kind() == reflect.Ptr || v.Kind() == reflect.Interface {
		if v.IsNil() {
			return data.Null{}, false
		}
		v = v.Elem()
	}
	if t, ok := v.Interface().(time.Time); ok {
		return data.String(t.Format(o.TimeFormat)), false
	}
	switch v.Kind() {
	case reflect.Bool:
		return data.Bool(v.Bool()), false
	case reflect.Int, reflect.Int8, reflect.Int16, reflect.Int32, reflect.Int64:
		return data.Int(v.Int()), false
	case reflect.Uint, reflect.Uint8, reflect.Uint16, reflect.Uint32, reflect.Uint64:
		if v.Uint() > math.MaxInt64 {
			return nil, true
		}
		return data.Int(int64(v.Uint())), false
	case reflect.Float32, reflect.Float64:
		return data.Float(v.Float()), false
	case reflect.String:
		return data.String(v.String()), false
	case reflect.Slice:
		l := make(data.List, v.Len())
		for i := range l {
			e, u := refConvert(o, v.Index(i).Interface())
			if u {
				return nil, true
			}
			l[i] = e
		}
		return l, false
	case reflect.Map:
		m := data.Map{}
		for _, k := range v.MapKeys() {
			e, u := refConvert(o, v.MapIndex(k).Interface())
			if u {
				return nil, true
			}
			m[k.String()] = e
		}
		return m, false
	case reflect.Struct:
		m := data.Map{}
		for i := 0; i < v.NumField(); i++ {
			f := v.Type().Field(i)
			if f.PkgPath != "" && !f.Anonymous { // unexported
				continue
			}
			if !v.Field(i).CanInterface() {
				continue
			}
			name := f.Name
			if o.LowerCamel {
				r, size := utf8.DecodeRuneInString(name)
				name = string(unicode.ToLower(r)) + name[size:]
			}
			e, u := refConvert(o, v.Field(i).Interface())
			if u {
				return nil, true
			}
			m[name] = e
		}
		return m, false
	}
	return nil, true
}

// refSame: structural identity of Soy values (NaN equals NaN, -0 distinct from 0 is not required).
func refSame(a, b data.Value) bool {
	switch a := a.(type) {
	case data.Undefined:
		_, ok := b.(data.Undefined)
		return ok
	case data.Null:
		_, ok := b.(data.Null)
		return ok
	case data.Bool:
		bb, ok := b.(data.Bool)
		return ok && a == bb
	case data.Int:
		bb, ok := b.(data.Int)
		return ok && a == bb
	case data.Float:
		bb, ok := b.(data.Float)
		return ok && (a == bb || (math.IsNaN(float64(a)) && math.IsNaN(float64(bb))))
	case data.String:
		bb, ok := b.(data.String)
		return ok && a == bb
	case data.List:
		bb, ok := b.(data.List)
		if !ok || len(a) != len(bb) {
			return false
		}
		for i := range a {
			if !refSame(a[i], bb[i]) {
				return false
			}
		}
		return true
	case data.Map:
		bb, ok := b.(data.Map)
		if !ok || len(a) != len(bb) {
			return false
		}
		for k, v := range a {
			w, ok := bb[k]
			if !ok || !refSame(v, w) {
				return false
			}
		}
		return true
	}
	return false
}

func showVal(v data.Value) string {
	switch v := v.(type) {
	case nil:
		return "<nil>"
	case data.Undefined:
		return "undefined"
	case data.List:
		s := "["
		for i, e := range v {
			if i > 0 {
				s += ", "
			}
			s += showVal(e)
		}
		return s + "]"
	case data.Map:
		var ks []string
		for k := range v {
			ks = append(ks, k)
		}
		sort.Strings(ks)
		s := "{"
		for i, k := range ks {
			if i > 0 {
				s += ", "
			}
			s += k + ": " + showVal(v[k])
		}
		return s + "}"
	}
	return fmt.Sprintf("%T(%v)", v, v)
}

func goShape(v interface{}) string {
	s := fmt.Sprintf("%T", v)
	if len(s) > 60 {
		s = s[:60]
	}
	return s
}

func checkC20(c *Ctx) {
	c20Full = c.Thorough()
	vals := c20Values()
	opts := []struct {
		name string
		o    data.StructOptions
	}{{"LowerCamel RFC3339 (default)", data.DefaultStructOptions}, {"no LowerCamel, custom time format", data.StructOptions{LowerCamel: false, TimeFormat: "2006-01-02 15:04"}}}
	var soyVals []data.Value
	var soyFrom []string
	seen := map[string]bool{}
	for oi, op := range opts {
		for vi, gv := range vals {
			if !c.Mine() {
				continue
			}
			gv := gv
			var got, again data.Value
			v := vrt.Run(vrt.Options{Fuel: 5000000}, func() {
				got = data.NewWith(op.o, gv)
				again = data.NewWith(op.o, got)
			})
			cs := c20case{Value: fmt.Sprintf("%#v", gv), Opts: op.name}
			if len(cs.Value) > 400 {
				cs.Value = cs.Value[:400] + "…"
			}
			want, unspec := refConvert(op.o, gv)
			key := fmt.Sprintf("%d/%d", oi, vi)
			sig := goShape(gv)
			switch {
			case v.Exhausted:
				c.Observe(key, "hang")
				c.Violate("conversion terminates", "hang", "hang:"+sig, cs, "returns", "fuel exhausted")
				continue
			case v.Panic != nil && unspec:
				c.Observe(key, "unspecified")
				continue
			case v.Panic != nil:
				c.Observe(key, "panic")
				c.Violate("conversion of a JSON-like value succeeds", "panic", "panic:"+sig, cs, showVal(want), fmt.Sprint(v.Panic))
				continue
			}
			c.Observe(key, showVal(got))
			c.Nontrivial()
			if unspec {
				// the statement promises "the same scalar values": an unsigned value above MaxInt64 has no Int representation.
				if hasNegativeFromUnsigned(gv, got) {
					c.Violate("integer kinds convert to the same scalar value", "mismatch", "scalar:uint64>MaxInt64", cs, "the same (non-negative) number, or an error", showVal(got))
				}
				continue
			}
			if !refSame(got, want) {
				c.Violate("conversion yields the same structure and scalar values (struct fields under their lowerCamel names)", "mismatch", "convert:"+sig+":"+op.name, cs, showVal(want), showVal(got))
			}
			if !refSame(again, got) {
				c.Violate("converting again changes nothing", "mismatch", "idempotent:"+sig, cs, showVal(got), showVal(again))
			}
			if k := showVal(got); !seen[k] && oi == 0 {
				seen[k] = true
				soyVals = append(soyVals, got)
				soyFrom = append(soyFrom, cs.Value)
			}
			if c.Index()%101 == 0 {
				c.Sample(map[string]any{"go_value": cs.Value, "options": op.name, "soy_value": showVal(got)})
			}
		}
	}
	// value laws on all ordered pairs (computed by every worker on the full value set of the
	// default options; pairs are sharded).
	var all []data.Value
	var allFrom []string
	seen = map[string]bool{}
	for _, gv := range vals {
		want, unspec := refConvert(data.DefaultStructOptions, gv)
		if unspec {
			continue
		}
		var got data.Value
		v := vrt.Run(vrt.Options{Fuel: 5000000}, func() { got = data.New(gv) })
		if v.Panic != nil || got == nil {
			continue
		}
		_ = want
		var flat func(x data.Value)
		flat = func(x data.Value) {
			k := showVal(x)
			if !seen[k] {
				seen[k] = true
				all = append(all, x)
				allFrom = append(allFrom, k)
			}
			switch x := x.(type) {
			case data.List:
				for _, e := range x {
					flat(e)
				}
			case data.Map:
				for _, e := range x {
					flat(e)
				}
			}
		}
		flat(got)
	}
	all = append(all, data.Undefined{}, data.Float(math.NaN()), data.Float(7), data.Int(7), data.Float(7.5), data.Float(-0.5), data.Int(0), data.Float(1<<40+0.5), data.Int(1<<40))
	for range []int{0, 1, 2, 3, 4, 5, 6, 7, 8} {
		allFrom = append(allFrom, "extra")
	}
	sort.SliceStable(all, func(i, j int) bool { return showVal(all[i]) < showVal(all[j]) })
	c.Max("distinct_soy_values", int64(len(all)))
	for i, a := range all {
		if !c.Mine() {
			continue
		}
		cs := c20case{Value: showVal(a)}
		// truthiness table
		wantT := refTruthy(a)
		var gotT bool
		var s1, s2 string
		var strPanic bool
		v := vrt.Run(vrt.Options{Fuel: 5000000}, func() {
			gotT = a.Truthy()
			if !isUndef(a) && !containsUndef(a) {
				defer func() {
					if r := recover(); r != nil {
						if _, ok := r.(*vrt.Abort); ok {
							panic(r)
						}
						strPanic = true
					}
				}()
				s1 = a.String()
				s2 = a.String()
			}
		})
		if v.Panic != nil || strPanic {
			c.Violate("printing a value returns", "panic", "string-panic:"+kindOf(a), cs, "a string", fmt.Sprint(v.Panic))
		}
		if gotT != wantT {
			c.Violate("truthiness follows the language table (null, false, 0, 0.0, NaN and the empty string are falsy)", "mismatch", "truthy:"+kindOf(a)+":"+showVal(a), cs, fmt.Sprint(wantT), fmt.Sprint(gotT))
		}
		if s1 != s2 {
			c.Violate("printing a value is deterministic", "mismatch", "string-nondeterministic:"+kindOf(a), cs, s1, s2)
		}
		// printing under every map order (instrumented build)
		if m, ok := a.(data.Map); ok && len(m) > 1 && c.Instr() && !containsUndef(a) {
			var first string
			st := explore(vrt.Options{Fuel: 5000000, MapChoice: true, FixedSched: true}, 3, 5000, func() { s1 = a.String() }, func(v vrt.Verdict, prefix []int) {
				if first == "" {
					first = s1
				} else if s1 != first {
					c.Violate("printing a value is deterministic (every map iteration order)", "mismatch", "string-map-order", cs, first, s1)
				}
			})
			c.Count("map_orders_explored", st.Execs)
		}
		eqObs := ""
		for j, b := range all {
			var ab, ba bool
			vrt.Run(vrt.Options{Fuel: 1000000}, func() { ab = a.Equals(b); ba = b.Equals(a) })
			c.Count("pairs", 1)
			cs.Other = showVal(b)
			if ab != ba {
				c.Violate("equality is symmetric", "mismatch", "asymmetric:"+kindOf(a)+"/"+kindOf(b), cs, "a.Equals(b) == b.Equals(a)", fmt.Sprintf("a.Equals(b)=%v b.Equals(a)=%v", ab, ba))
			}
			if isNum(a) && isNum(b) {
				want := toF(a) == toF(b)
				ai, aInt := a.(data.Int)
				bi, bInt := b.(data.Int)
				if aInt && bInt {
					want = ai == bi
				}
				if ab != want {
					c.Violate("equality is numeric across int and float", "mismatch", "numeric-eq:"+kindOf(a)+"/"+kindOf(b), cs, fmt.Sprint(want), fmt.Sprint(ab))
				}
			} else if i != j && kindOf(a) != kindOf(b) && ab {
				c.Violate("values of different kinds are not equal", "mismatch", "cross-kind-eq:"+kindOf(a)+"/"+kindOf(b), cs, "false", "true")
			}
			if ab {
				eqObs += fmt.Sprint(j, ",")
			}
		}
		c.Observe("laws:"+showVal(a), fmt.Sprint(gotT, s1, eqObs))
		c.Nontrivial()
	}
}

func containsUndef(v data.Value) bool {
	switch v := v.(type) {
	case data.Undefined:
		return true
	case data.List:
		for _, e := range v {
			if containsUndef(e) {
				return true
			}
		}
	case data.Map:
		for _, e := range v {
			if containsUndef(e) {
				return true
			}
		}
	}
	return false
}

// hasNegativeFromUnsigned reports whether the converted value contains a negative Int although
// the Go value held only unsigned numbers above MaxInt64 at that place.
func hasNegativeFromUnsigned(gv interface{}, got data.Value) bool {
	neg := false
	var walk func(x data.Value)
	walk = func(x data.Value) {
		switch x := x.(type) {
		case data.Int:
			if x < 0 {
				neg = true
			}
		case data.List:
			for _, e := range x {
				walk(e)
			}
		case data.Map:
			for _, e := range x {
				walk(e)
			}
		}
	}
	walk(got)
	// only values that contain no signed negative numbers are passed here (see catalogue): any negative Int came from an unsigned.
	s := fmt.Sprintf("%#v", gv)
	return neg && !containsSignedNegative(s)
}

func containsSignedNegative(s string) bool {
	for i := 0; i+1 < len(s); i++ {
		if s[i] == '-' && s[i+1] >= '0' && s[i+1] <= '9' {
			return true
		}
	}
	return false
}
