package main

import (
	"fmt"
	"regexp"
	"runtime"
	"strings"
	"time"

	"github.com/robfig/soy"
	"github.com/robfig/soy/parse"
	"verif/vrt"
)

func init() {
	register("C05", func(c *Ctx) { parseSweep(c, "C05") })
	register("C18", func(c *Ctx) { parseSweep(c, "C18") })
}

type parseCase struct {
	Kind  string `json:"kind"` // file | expr
	Input string `json:"input"`
	From  string `json:"from"`
}

// fuelFor is the linear bound of C05: K*(len+16)+C ticks.
func fuelFor(n int) int64 { return 400*int64(n+16) + 20000 }

var baseGoroutines = -1
var plainLeaksSeen int

// plainLeak reports goroutines left behind on the plain build (confirmation of
// the scheduler's verdict on the real code).
func plainLeak() int {
	if baseGoroutines < 0 {
		return 0
	}
	for i := 0; i < 50; i++ {
		if runtime.NumGoroutine() <= baseGoroutines {
			return 0
		}
		runtime.Gosched()
	}
	for i := 0; i < 40; i++ {
		if runtime.NumGoroutine() <= baseGoroutines {
			return 0
		}
		time.Sleep(5 * time.Millisecond)
	}
	n := runtime.NumGoroutine() - baseGoroutines
	baseGoroutines = runtime.NumGoroutine() // a leaked goroutine stays forever: rebase
	return n
}

func runParseCase(c *Ctx, prop string, pc parseCase) {
	var tree, isErr bool
	var errStr string
	if baseGoroutines < 0 {
		baseGoroutines = runtime.NumGoroutine()
	}
	v := vrt.Run(vrt.Options{Fuel: fuelFor(len(pc.Input))}, func() {
		if pc.Kind == "globals" {
			m, err := soy.ParseGlobals(strings.NewReader(pc.Input))
			tree, isErr = m != nil, err != nil
			if err != nil {
				errStr = err.Error()
			}
		} else if pc.Kind == "expr" {
			n, err := parse.Expr(pc.Input)
			tree, isErr = n != nil, err != nil
			if err != nil {
				errStr = err.Error()
			}
		} else {
			n, err := parse.SoyFile("f.soy", pc.Input)
			tree, isErr = n != nil, err != nil
			if err != nil {
				errStr = err.Error()
			}
		}
	})
	key := pc.Kind + "\x00" + pc.Input
	obs := fmt.Sprintf("%v|%v|%s", tree, isErr, errStr)
	if v.Panic != nil {
		obs = fmt.Sprintf("panic:%v", v.Panic)
	}
	if v.Exhausted {
		obs = "hang"
	}
	c.Observe(key, obs)
	if isErr || len(pc.Input) > 0 {
		c.Nontrivial()
	}
	if v.Ticks > 0 {
		c.Max("max_ticks_per_16_bytes", v.Ticks*16/int64(len(pc.Input)+16))
		c.Max("max_ticks", v.Ticks)
		c.Count("threads_created", int64(v.Threads))
	}
	if c.Index()%50021 == 0 {
		c.Sample(map[string]any{"case": pc, "observed": obs, "ticks": v.Ticks, "leaked": v.Leaked})
	}
	leaked := v.Leaked
	if !c.Instr() && prop == "C18" && plainLeaksSeen < 20 {
		leaked = plainLeak()
		if leaked > 0 {
			plainLeaksSeen++
		}
	}
	if prop == "C05" {
		switch {
		case v.Exhausted:
			c.Violate("terminates in time proportional to the input", "hang", "hang@"+v.ExhaustSite+":"+shapeOf(pc), pc,
				fmt.Sprintf("returns within %d ticks", fuelFor(len(pc.Input))), "fuel exhausted in "+v.ExhaustSite)
		case v.Deadlock:
			c.Violate("never blocks", "deadlock", "deadlock:"+shapeOf(pc), pc, "returns", "parser blocked with no runnable scanner")
		case v.Panic != nil:
			c.Violate("never panics", "panic", "panic:"+panicSite(v.PanicStack)+":"+shapeOf(pc), pc, "tree or error", fmt.Sprintf("panic: %v\n%s", v.Panic, v.PanicStack))
		case tree == isErr:
			c.Violate("returns exactly one of tree and error", "mismatch", "treexorerr:"+shapeOf(pc), pc, "tree xor error", obs)
		}
	} else {
		if !v.Exhausted && !v.Deadlock && v.Panic == nil && leaked > 0 {
			c.Violate("scanner has exited when the parse call returns", "leak", "leak:"+pc.Kind+":"+fmt.Sprint(isErr)+":"+shapeOf(pc), pc,
				"no thread created by the call survives", fmt.Sprintf("%d thread(s) left blocked on %v (returned tree=%v err=%q)", leaked, v.LeakSites, tree, errStr))
		}
	}
}

var reArgs = regexp.MustCompile(`\([^()]*\)$`)

// shapeOf abstracts an input to the trailing construct (used in signatures so
// that one defect does not yield thousands of signatures).
func shapeOf(pc parseCase) string {
	in := pc.Input
	if i := strings.LastIndexByte(in, '{'); i >= 0 {
		in = in[i:]
	}
	if len(in) > 24 {
		in = in[:24]
	}
	return pc.Kind + ":" + in
}

func panicSite(stack string) string {
	for _, l := range strings.Split(stack, "\n") {
		if strings.Contains(l, "github.com/robfig/soy/") && !strings.Contains(l, "recover") && !strings.HasPrefix(l, "\t") {
			if i := strings.LastIndex(l, "/"); i >= 0 {
				l = l[i+1:]
			}
			return reArgs.ReplaceAllString(l, "")
		}
	}
	return "?"
}

var reTok = regexp.MustCompile(`\{[^{}]*\}|[^{}\s]+|\s+|[{}]`)

func parseSweep(c *Ctx, prop string) {
	corpus := loadCorpus()
	do := func(kind, in, from string) {
		if c.Mine() {
			runParseCase(c, prop, parseCase{kind, in, from})
		}
	}
	// (a) every byte prefix of every corpus file (large files: every prefix too).
	for fi, f := range corpus {
		for i := 0; i <= len(f); i++ {
			do("file", f[:i], fmt.Sprintf("prefix %d of corpus[%d]", i, fi))
		}
	}
	// (b) fragment sequences in every context.
	maxLen := 2
	if c.Thorough() {
		maxLen = 3
	}
	for _, w := range ctxWrappers {
		var rec func(depth int, s string)
		rec = func(depth int, s string) {
			do("file", w.pre+s+w.post, "frags in "+w.name)
			if depth > 0 && w.post != "" {
				do("file", w.pre+s, "frags in "+w.name+" (unterminated)")
			}
			if depth == maxLen {
				return
			}
			for _, f := range fragDict[1:] {
				rec(depth+1, s+f)
			}
		}
		rec(0, "")
	}
	// quick tier: length-3 sequences at file and template level over the block-structure fragments.
	if !c.Thorough() {
		var core []string
		for _, f := range fragDict[1:] {
			if strings.HasPrefix(f, "{") && !strings.HasSuffix(f, "}") || strings.Contains(f, "switch") || strings.Contains(f, "plural") ||
				strings.Contains(f, "msg") || strings.Contains(f, "call") || strings.Contains(f, "param") || strings.Contains(f, "literal") || f == "/**" || f == "*/" {
				core = append(core, f)
			}
		}
		for _, w := range ctxWrappers[:2] {
			for _, a := range core {
				for _, b := range core {
					for _, d := range core {
						do("file", w.pre+a+b+d+w.post, "core frags in "+w.name)
					}
				}
			}
		}
	}
	// (c) token deletions, duplications, adjacent swaps (single; double on the generated corpus).
	for fi, f := range corpus {
		toks := reTok.FindAllString(f, -1)
		if len(toks) > 400 && !c.Thorough() {
			// large file: singles only, every 3rd token in the quick tier
			for i := 0; i < len(toks); i += 3 {
				do("file", strings.Join(append(append([]string{}, toks[:i]...), toks[i+1:]...), ""), fmt.Sprintf("delete token %d of corpus[%d]", i, fi))
			}
			continue
		}
		mut := func(ts []string, op, i int) []string {
			out := append([]string{}, ts...)
			switch op {
			case 0:
				return append(out[:i], out[i+1:]...)
			case 1:
				out = append(out[:i+1], out[i:]...)
				return out
			default:
				if i+1 < len(out) {
					out[i], out[i+1] = out[i+1], out[i]
				}
				return out
			}
		}
		for op := 0; op < 3; op++ {
			for i := range toks {
				m1 := mut(toks, op, i)
				do("file", strings.Join(m1, ""), fmt.Sprintf("mutate(op%d,%d) corpus[%d]", op, i, fi))
				if len(toks) <= 120 && (c.Thorough() || fi < len(genCorpus)) {
					step := 1
					if !c.Thorough() {
						step = 4
					}
					for op2 := 0; op2 < 3; op2++ {
						for j := i; j < len(m1); j += step {
							do("file", strings.Join(mut(m1, op2, j), ""), fmt.Sprintf("mutate2 corpus[%d]", fi))
						}
					}
				}
			}
		}
	}
	// (d) every byte string of length <=2 over all 256 bytes, length 3 over class representatives, in each context.
	for _, w := range byteCtx {
		do("file", w.pre+w.post, "bytes in "+w.name)
		for a := 0; a < 256; a++ {
			do("file", w.pre+string([]byte{byte(a)})+w.post, "bytes in "+w.name)
			do("file", w.pre+string([]byte{byte(a)}), "bytes in "+w.name+" (unterminated)")
		}
		for a := 0; a < 256; a++ {
			for b := 0; b < 256; b++ {
				do("file", w.pre+string([]byte{byte(a), byte(b)})+w.post, "bytes in "+w.name)
			}
		}
		for _, a := range classReps {
			for _, b := range classReps {
				for _, d := range classReps {
					do("file", w.pre+string([]byte{a, b, d})+w.post, "bytes in "+w.name)
					if c.Thorough() {
						do("file", w.pre+string([]byte{a, b, d}), "bytes in "+w.name+" (unterminated)")
					}
				}
			}
		}
	}
	// (d2) micro-grammars: every string over the string-literal alphabet and over the
	// number alphabet up to length 5 (6 thorough), as a literal in a print tag, in a
	// map key, in a quoted attribute and as a standalone expression.
	micro := func(alpha []string, maxLen int, wrap func(s string) []parseCase) {
		var rec func(depth int, s string)
		rec = func(depth int, s string) {
			for _, pc := range wrap(s) {
				do(pc.Kind, pc.Input, pc.From)
			}
			if depth == maxLen {
				return
			}
			for _, a := range alpha {
				rec(depth+1, s+a)
			}
		}
		rec(0, "")
	}
	mlen := 5
	if c.Thorough() {
		mlen = 6
	}
	micro([]string{"\\", "u", "0", "'", "a", "n", "é"}, mlen, func(s string) []parseCase {
		return []parseCase{
			{"expr", "'" + s + "'", "string micro-grammar"},
			{"file", "{namespace a}\n{template .t}\n{'" + s + "'}{['" + s + "': 1]}\n{/template}\n", "string micro-grammar"},
		}
	})
	micro([]string{"0", "1", "x", "e", ".", "-", "+", "A"}, mlen, func(s string) []parseCase {
		return []parseCase{
			{"expr", s, "number micro-grammar"},
			{"file", "{namespace a}\n{template .t}\n{" + s + "}{$x." + s + "}\n{/template}\n", "number micro-grammar"},
		}
	})
	// (e) parse.Expr: bytes and token sequences.
	do("expr", "", "empty")
	for a := 0; a < 256; a++ {
		do("expr", string([]byte{byte(a)}), "bytes")
		for b := 0; b < 256; b++ {
			do("expr", string([]byte{byte(a), byte(b)}), "bytes")
		}
	}
	for _, a := range classReps {
		for _, b := range classReps {
			for _, d := range classReps {
				do("expr", string([]byte{a, b, d}), "class bytes")
			}
		}
	}
	exprLen := 3
	if c.Thorough() {
		exprLen = 4
	}
	var rec func(depth int, s string)
	rec = func(depth int, s string) {
		if depth > 0 {
			do("expr", s, "expr tokens")
			do("file", "{namespace a}\n{template .t}\n{"+s+"}\n{/template}\n", "expr tokens in print")
			if depth <= 3 {
				do("file", "{namespace a}\n{template .t}\n{call .t data=\""+strings.ReplaceAll(s, "\"", "")+"\"/}{css "+s+", a}\n{/template}\n", "expr tokens in quoted attribute and css")
			}
		}
		if depth == exprLen {
			return
		}
		for _, t := range exprDict[1:] {
			sep := " "
			if depth == 0 {
				sep = ""
			}
			rec(depth+1, s+sep+t)
			if t == ".a" || t == "?.b" || t == ".0" || t == "?.1" || t == "[" || t == "(" || t == ")" || t == "]" || t == "?[" {
				rec(depth+1, s+t)
			}
		}
	}
	rec(0, "")
	// (h) globals files (C18: ParseGlobals parses one expression per line and is
	// called repeatedly by reloading servers): every sequence of up to three
	// lines over the line alphabet, and every position of one failing line in
	// files of up to twelve lines.
	var globalsSmall []parseCase
	if prop == "C18" {
		glines := []string{"a.B = 1", "x", "c = )", "d = $x", "e = 1 2", "// c", "", "f = 'q' + 2", "g = [1, 2", "h = 'u"}
		var grec func(d int, s string)
		grec = func(d int, s string) {
			if d > 0 {
				do("globals", s, "globals lines")
				do("globals", strings.TrimSuffix(s, "\n"), "globals lines")
			}
			if d == 3 {
				return
			}
			for _, l := range glines {
				grec(d+1, s+strings.Replace(l, "a.B", fmt.Sprintf("a.B%d", d), 1)+"\n")
			}
		}
		grec(0, "")
		for n := 1; n <= 12; n++ {
			for bad := 0; bad < n; bad++ {
				for _, bl := range glines[1:5] {
					for _, sepr := range []string{"\n", "\r\n"} {
						var sb strings.Builder
						for i := 0; i < n; i++ {
							if i == bad {
								sb.WriteString(bl)
							} else {
								fmt.Fprintf(&sb, "k.V%d = %d", i, i)
							}
							sb.WriteString(sepr)
						}
						do("globals", sb.String(), "globals failing line")
						if sepr == "\n" && n <= 8 && (bad == 0 || bad == n-1 || bad == n/2) {
							globalsSmall = append(globalsSmall, parseCase{"globals", sb.String(), "schedules"})
						}
					}
				}
			}
		}
		for _, l := range glines {
			globalsSmall = append(globalsSmall, parseCase{"globals", l + "\n", "schedules"}, parseCase{"globals", "a = 1\n" + l + "\nb = 2\n", "schedules"})
		}
	}
	// (g) schedule exploration: small inputs under every interleaving of the
	// parser and scanner threads up to preemption bound 2.
	if c.Instr() {
		var small []parseCase
		for _, f := range fragDict {
			small = append(small, parseCase{"file", f, "schedules"}, parseCase{"file", ctxWrappers[1].pre + f, "schedules"})
		}
		for _, a := range exprDict {
			small = append(small, parseCase{"expr", a, "schedules"})
			for _, b := range exprDict[1:] {
				small = append(small, parseCase{"expr", a + " " + b, "schedules"})
				if c.Thorough() {
					for _, d := range exprDict[1:] {
						small = append(small, parseCase{"expr", a + " " + b + " " + d, "schedules"})
					}
				}
			}
		}
		small = append(small,
			parseCase{"file", "{namespace a}\n{template .t}\n{call .t data=\"$x y\"/}\n{/template}\n", "schedules"},
			parseCase{"file", "{namespace a}\n{template .t}\n{css $x y, a}\n{/template}\n", "schedules"},
			parseCase{"file", "{namespace a}\n{template .t}\n{call .t}{param key=\"k\" value=\"1 2\"/}{/call}\n{/template}\n", "schedules"},
		)
		small = append(small, globalsSmall...)
		for _, pc := range small {
			if !c.Mine() {
				continue
			}
			pc := pc
			var first string
			st := explore(vrt.Options{Fuel: fuelFor(len(pc.Input))}, 2, 200000, func() {
				if pc.Kind == "globals" {
					soy.ParseGlobals(strings.NewReader(pc.Input))
				} else if pc.Kind == "expr" {
					parse.Expr(pc.Input)
				} else {
					parse.SoyFile("f.soy", pc.Input)
				}
			}, func(v vrt.Verdict, prefix []int) {
				c.Count("schedules", 1)
				o := fmt.Sprintf("exh=%v dl=%v leak=%d panic=%v", v.Exhausted, v.Deadlock, v.Leaked, v.Panic != nil)
				if first == "" {
					first = o
				}
				bad := ""
				switch {
				case prop == "C05" && v.Exhausted:
					bad = "hang"
				case prop == "C05" && v.Deadlock:
					bad = "deadlock"
				case prop == "C05" && v.Panic != nil:
					bad = "panic"
				case prop == "C18" && v.Leaked > 0 && !v.Exhausted && !v.Deadlock:
					bad = "leak"
				}
				if bad != "" {
					c.Violate("holds under every schedule (preemption bound 2)", bad, "sched-"+bad+":"+shapeOf(pc),
						map[string]any{"case": pc, "schedule": prefix}, "as under the canonical schedule", o+fmt.Sprint(v.LeakSites))
				}
			})
			c.Max("max_schedule_points", int64(st.MaxPoints))
			if st.Capped {
				c.Cap("schedule exploration capped at 200000 executions for " + pc.Input)
			}
			c.ObserveLocal("sched\x00"+pc.Kind+"\x00"+pc.Input, first)
		}
	}
	// (f) histories for C18: sequences of parses in one process are what this
	// worker has been doing all along; record the final thread census.
	if prop == "C18" && !c.Instr() {
		c.Note("goroutines_at_end_plain", fmt.Sprint(runtime.NumGoroutine()))
	}
}
