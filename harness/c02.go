package main

import (
	"bytes"
	"fmt"
	"sort"
	"strings"

	"github.com/robfig/soy"
	"github.com/robfig/soy/data"
	"verif/vrt"
)

func init() { register("C02", checkC02) }

func I(n int64) *E      { return lit(fmt.Sprint(n), data.Int(n)) }
func S(s string) *E     { return lit(quoteSoy(s), data.String(s)) }
func txt(s string) *Cmd { return &Cmd{K: "text", Text: s} }
func pr(e *E) *Cmd      { return &Cmd{K: "print", E: e} }

// library templates that generated callers call (second file, other namespace included).
func libFiles() []*File {
	// same namespace, same file as the entry template is added by the caller; these live elsewhere.
	lib := &File{Name: "lib.soy", NS: "lib.deep", Tmpls: []*Tmpl{
		// prints its optional params; declares a let with the caller's favourite name.
		{NS: "lib.deep", Name: "show", Params: []Param{{"x", true}, {"y", true}}, Body: []*Cmd{
			txt("<"), pr(bin("?:", vr("x"), S("nx"))), txt("|"), pr(bin("?:", vr("y"), S("ny"))), txt(">"),
		}},
		// binds x and y itself: nothing may leak back to the caller.
		{NS: "lib.deep", Name: "binder", Params: []Param{{"x", true}}, Header: true, Body: []*Cmd{
			{K: "let", Var: "y", E: I(77)}, {K: "foreach", Var: "x", E: &E{K: "list", A: []*E{I(5), I(6)}}, Body: []*Cmd{pr(vr("x")), pr(vr("y"))}},
			txt("#"), pr(bin("?:", vr("x"), S("nx"))),
		}},
		// recursion bounded by a decreasing argument.
		{NS: "lib.deep", Name: "rec", Params: []Param{{"n", false}}, Body: []*Cmd{
			{K: "if", Conds: []Branch{{E: bin(">", vr("n"), I(0)), Body: []*Cmd{
				pr(vr("n")),
				{K: "call", Call: &CallSpec{Name: ".rec", Target: "lib.deep.rec", Params: []CallParam{{Key: "n", Value: bin("-", vr("n"), I(1))}}}},
			}}}, Else: []*Cmd{txt(".")}},
		}},
		// an optional param declared BEFORE a required one (declaration order must not matter).
		{NS: "lib.deep", Name: "mixed", Params: []Param{{"o", true}, {"r", false}, {"o2", true}, {"r2", false}}, Body: []*Cmd{
			txt("m("), pr(bin("?:", vr("o"), S("-"))), pr(vr("r")), pr(bin("?:", vr("o2"), S("-"))), pr(vr("r2")), txt(")"),
		}},
		// header params, one written with a default value: nothing binds the default, the param stays required.
		{NS: "lib.deep", Name: "hdrdef", Params: []Param{{"r", false}, {"o", true}}, Header: true, Defaults: map[string]string{"r": "3"}, Body: []*Cmd{
			txt("h("), pr(vr("r")), pr(bin("?:", vr("o"), S("-"))), txt(")"),
		}},
		// passes everything on.
		{NS: "lib.deep", Name: "relay", Params: []Param{{"x", true}, {"y", true}}, Body: []*Cmd{
			txt("r("), {K: "call", Call: &CallSpec{Name: ".show", Target: "lib.deep.show", AllData: true}}, txt(")"),
		}},
	}}
	// a namespace below the aliased one: {alias lib.deep} makes deep.sub.leaf mean lib.deep.sub.leaf.
	sub := &File{Name: "sub.soy", NS: "lib.deep.sub", Tmpls: []*Tmpl{
		{NS: "lib.deep.sub", Name: "leaf", Params: []Param{{"x", true}}, Body: []*Cmd{txt("s["), pr(bin("?:", vr("x"), S("nx"))), txt("]")}},
	}}
	return []*File{lib, sub}
}

// withLib returns main followed by the library files.
func withLib(main *File, lib []*File) []*File { return append([]*File{main}, lib...) }

// libSrcs adds the library files' sources to m and returns the file names in order (main first).
func libSrcs(m map[string]string, lib []*File) []string {
	names := []string{"main.soy"}
	for _, f := range lib {
		m[f.Name] = f.src()
		names = append(names, f.Name)
	}
	return names
}

type c02case struct {
	Files map[string]string `json:"files"`
	Entry string            `json:"entry"`
	Data  string            `json:"data"`
	Sk    string            `json:"sketch"`
}

// statement alphabet -------------------------------------------------------

// leaves: statements without nested blocks.  Variable names are drawn from
// {x, y} so that params, lets and loop variables are forced to collide.
func c02Leaves() []*Cmd {
	return []*Cmd{
		txt("t"),
		pr(vr("x")),
		pr(vr("y")),
		{K: "let", Var: "x", E: I(1)},
		{K: "let", Var: "y", E: bin("+", vr("x"), I(10))},
		{K: "let", Var: "x", E: bin("+", vr("y"), I(100))},
		{K: "letc", Var: "y", Body: []*Cmd{txt("c"), pr(vr("x"))}},
		{K: "call", Call: &CallSpec{Name: "lib.deep.show", Target: "lib.deep.show", AllData: true}},
		{K: "call", Call: &CallSpec{Name: "deep.show", Target: "lib.deep.show"}},
		{K: "call", Call: &CallSpec{Name: "deep.mixed", Target: "lib.deep.mixed", Params: []CallParam{{Key: "r", Value: vr("x")}, {Key: "r2", Value: I(2)}}}},
		{K: "call", Call: &CallSpec{Name: "deep.show", Target: "lib.deep.show", Params: []CallParam{{Key: "x", Value: vr("y")}}}},
		{K: "call", Call: &CallSpec{Name: "deep.binder", Target: "lib.deep.binder", Params: []CallParam{{Key: "x", Value: vr("x")}}}},
		{K: "call", Call: &CallSpec{Name: "deep.show", Target: "lib.deep.show", Data: vr("m"), Params: []CallParam{{Key: "y", Content: []*Cmd{txt("p"), pr(vr("x"))}}}}},
		{K: "call", Call: &CallSpec{Name: "deep.relay", Target: "lib.deep.relay", AllData: true, Params: []CallParam{{Key: "y", Value: vr("x"), Attr: true}}}},
		{K: "call", Call: &CallSpec{Name: "deep.sub.leaf", Target: "lib.deep.sub.leaf", Params: []CallParam{{Key: "x", Value: vr("y")}}}},
	}
}

// wrap builds each block kind around an inner command list.
func c02Blocks(inner []*Cmd, inner2 []*Cmd) []*Cmd {
	cp := func(cs []*Cmd) []*Cmd { return append([]*Cmd{}, cs...) }
	return []*Cmd{
		{K: "if", Conds: []Branch{{E: vr("c"), Body: cp(inner)}}},
		{K: "if", Conds: []Branch{{E: vr("c"), Body: cp(inner)}}, Else: cp(inner2)},
		{K: "if", Conds: []Branch{{E: un("not", vr("c")), Body: []*Cmd{txt("n")}}, {E: vr("c"), Body: cp(inner)}}, Else: cp(inner2)},
		{K: "switch", E: vr("c"), Conds: []Branch{{Vals: []*E{I(7), lit("true", data.Bool(true))}, Body: cp(inner)}}, Else: cp(inner2)},
		{K: "foreach", Var: "x", E: vr("l"), Body: cp(inner), Else: cp(inner2)},
		{K: "foreach", Var: "y", E: vr("l"), Body: append([]*Cmd{pr(call("index", vr("y"))), {K: "if", Conds: []Branch{{E: call("isLast", vr("y")), Body: []*Cmd{txt("L")}}}}}, inner...)},
		{K: "for", Var: "y", E: call("range", I(2)), Body: cp(inner)},
		{K: "for", Var: "y", E: call("range", I(3), I(1)), Body: cp(inner), Else: cp(inner2)},
		{K: "for", Var: "y", E: call("range", I(1), I(6), I(2)), Body: append([]*Cmd{pr(vr("y"))}, inner...)},
		// a let that shadows an outer name in the middle of a loop body: each iteration starts with the outer binding again
		{K: "foreach", Var: "x", E: vr("l"), Body: append([]*Cmd{pr(vr("y")), {K: "let", Var: "y", E: bin("+", vr("x"), I(10))}, pr(vr("y"))}, inner...)},
		{K: "letc", Var: "y", Body: cp(inner)},
		{K: "call", Call: &CallSpec{Name: "deep.show", Target: "lib.deep.show", Params: []CallParam{{Key: "x", Content: cp(inner)}}}},
		{K: "msg", Body: cp(inner)},
		{K: "log", Body: cp(inner)},
	}
}

func skCmds(cs []*Cmd) string {
	var parts []string
	for _, c := range cs {
		switch c.K {
		case "text":
			parts = append(parts, "T")
		case "print":
			parts = append(parts, "P"+c.E.Op)
		case "let":
			parts = append(parts, "L"+c.Var)
		case "letc":
			parts = append(parts, "LC"+c.Var+"["+skCmds(c.Body)+"]")
		case "if":
			s := "if["
			for _, b := range c.Conds {
				s += skCmds(b.Body) + "|"
			}
			parts = append(parts, s+skCmds(c.Else)+"]")
		case "switch":
			s := "sw["
			for _, b := range c.Conds {
				s += skCmds(b.Body) + "|"
			}
			parts = append(parts, s+skCmds(c.Else)+"]")
		case "foreach", "for":
			parts = append(parts, c.K+"$"+c.Var+"["+skCmds(c.Body)+"|"+skCmds(c.Else)+"]")
		case "call":
			s := "call:" + c.Call.Target
			if c.Call.AllData {
				s += ":all"
			}
			if c.Call.Data != nil {
				s += ":data"
			}
			for _, p := range c.Call.Params {
				s += ":" + p.Key
				if p.Value == nil {
					s += "[" + skCmds(p.Content) + "]"
				}
			}
			parts = append(parts, s)
		default:
			parts = append(parts, c.K+"["+skCmds(c.Body)+"]")
		}
	}
	return strings.Join(parts, " ")
}

// msgOK: a msg body may only hold text, prints and calls (no control flow).
func msgOK(cs []*Cmd) bool {
	for _, c := range cs {
		switch c.K {
		case "text", "print", "call":
		default:
			return false
		}
	}
	return true
}

func hasMsgViolation(cs []*Cmd) bool {
	for _, c := range cs {
		if c.K == "msg" && !msgOK(c.Body) {
			return true
		}
		for _, b := range c.Conds {
			if hasMsgViolation(b.Body) {
				return true
			}
		}
		if hasMsgViolation(c.Body) || hasMsgViolation(c.Else) {
			return true
		}
		if c.Call != nil {
			for _, p := range c.Call.Params {
				if hasMsgViolation(p.Content) {
					return true
				}
			}
		}
	}
	return false
}

// usedNames returns the free variable names a body references anywhere.
func usedNames(cs []*Cmd, set map[string]bool) {
	for _, c := range cs {
		if c.E != nil {
			c.E.vars(set)
		}
		for _, b := range c.Conds {
			if b.E != nil {
				b.E.vars(set)
			}
			for _, v := range b.Vals {
				v.vars(set)
			}
			usedNames(b.Body, set)
		}
		usedNames(c.Body, set)
		usedNames(c.Else, set)
		if c.Call != nil {
			if c.Call.Data != nil {
				c.Call.Data.vars(set)
			}
			for _, p := range c.Call.Params {
				if p.Value != nil {
					p.Value.vars(set)
				}
				usedNames(p.Content, set)
			}
		}
	}
}

// c02Data: the assignments of values to the entry template's params.
func c02Data() []data.Map {
	var out []data.Map
	for _, c := range []data.Value{data.Bool(true), data.Bool(false), data.Int(7)} {
		for _, l := range []data.Value{data.List{}, data.List{data.Int(3), data.String("a<")}} {
			for _, x := range []data.Value{nil, data.Int(2), data.String("<s>")} {
				m := data.Map{"c": c, "l": l, "y": data.Int(4), "m": data.Map{"x": data.String("mx"), "q": data.Int(0)}}
				if x != nil {
					m["x"] = x
				}
				out = append(out, m)
			}
		}
	}
	return out
}

func dataKey(m data.Map) string {
	s, _ := refStr(m)
	return s
}

// runBundle compiles the files in order and renders entry with each data map.
type bundleResult struct {
	compileErr string
	outs       []string
	errs       []string
	v          vrt.Verdict
}

func runBundle(files []*File, order []int, entry string, datas []data.Map, ij data.Map, fuel int64) bundleResult {
	var r bundleResult
	r.v = vrt.Run(vrt.Options{Fuel: fuel}, func() {
		b := soy.NewBundle()
		for _, i := range order {
			b = b.AddTemplateString(files[i].Name, files[i].src())
		}
		tofu, err := b.CompileToTofu()
		if err != nil {
			r.compileErr = err.Error()
			return
		}
		for _, d := range datas {
			var buf bytes.Buffer
			err := tofu.NewRenderer(entry).Inject(ij).Execute(&buf, d)
			r.outs = append(r.outs, buf.String())
			if err != nil {
				r.errs = append(r.errs, firstLineOf(err.Error()))
			} else {
				r.errs = append(r.errs, "")
			}
		}
	})
	return r
}

func checkC02(c *Ctx) {
	datas := c02Data()
	lib := libFiles()

	tryBody := func(body []*Cmd, variant int) {
		if !c.Mine() {
			return
		}
		if hasMsgViolation(body) {
			return
		}
		// declare exactly the names the body uses that are not bound otherwise: the rule
		// checker decides; params are chosen among {x, y, c, l, m}.
		names := map[string]bool{}
		usedNames(body, names)
		delete(names, "ij")
		var params []Param
		var pn []string
		for n := range names {
			pn = append(pn, n)
		}
		sort.Strings(pn)
		for _, n := range pn {
			params = append(params, Param{Name: n, Optional: n == "x"})
		}
		t := &Tmpl{NS: "app.main", Name: "entry", Params: params, Body: body, Header: variant&1 == 1}
		main := &File{Name: "main.soy", NS: "app.main", Aliases: []string{"lib.deep"}, Tmpls: []*Tmpl{t}}
		files := withLib(main, lib)
		if rs := checkRules(files); len(rs) > 0 {
			c.Count("generated_but_rule_violating", 1)
			return // only rule-abiding programs here; C07 handles the others
		}
		order := []int{0, 1, 2}
		if variant&2 == 2 {
			order = []int{2, 1, 0}
		}
		// supply only declared params
		var ds []data.Map
		seen := map[string]bool{}
		for _, d := range datas {
			m := data.Map{}
			for _, p := range params {
				if v, ok := d[p.Name]; ok {
					m[p.Name] = v
				}
			}
			k := dataKey(m)
			if !seen[k] {
				seen[k] = true
				ds = append(ds, m)
			}
		}
		res := runBundle(files, order, "app.main.entry", ds, exprIJ, 2000000)
		cs := c02case{Files: map[string]string{"main.soy": main.src()}, Entry: "app.main.entry", Sk: skCmds(body)}
		libSrcs(cs.Files, lib)
		key := cs.Files["main.soy"] + fmt.Sprint(order)
		sig := skCmds(body)
		switch {
		case res.v.Exhausted:
			c.Observe(key, "hang")
			c.Violate("terminates", "hang", "hang:"+sig, cs, "returns", "fuel exhausted in "+res.v.ExhaustSite)
			return
		case res.v.Panic != nil:
			c.Observe(key, "panic")
			c.Violate("no panic", "panic", "panic:"+sig, cs, "output", fmt.Sprint(res.v.Panic))
			return
		case res.compileErr != "":
			c.Observe(key, "compile error")
			c.Violate("rule-abiding bundle is accepted", "mismatch", "reject:"+sig, cs, "compiles", res.compileErr)
			return
		}
		obs := ""
		specified := 0
		for i, d := range ds {
			x := newRefExec(files, exprIJ)
			want, st := x.run("app.main.entry", d)
			got, gerr := normEntities(res.outs[i]), res.errs[i]
			if st == stUnspec {
				obs += "|unspecified"
				continue
			}
			specified++
			obs += "|" + got + "|" + fmt.Sprint(gerr != "")
			cs.Data = dataKey(d)
			switch {
			case st == stOK && gerr != "":
				c.Violate("output is exactly the text the semantics define", "mismatch", "err:"+sig, cs, want, "render error: "+gerr+" (wrote "+got+")")
			case st == stOK && got != want:
				c.Violate("output is exactly the text the semantics define", "mismatch", "value:"+sig, cs, want, got)
			case st == stError && gerr == "":
				c.Violate("a valueless expression makes the render fail", "mismatch", "noerr:"+sig, cs, "render error", "no error; wrote "+got)
			}
		}
		c.Observe(key, obs)
		if specified > 0 {
			c.Nontrivial()
		}
		c.Count("renders", int64(len(ds)))
		if c.Index()%20011 == 0 {
			c.Sample(map[string]any{"main.soy": cs.Files["main.soy"], "data_sets": len(ds), "observed": obs})
		}
	}

	enumBodies(c.Thorough(), tryBody)
	// fixed scenarios: recursion, cross-file names, header params, special characters and literal.
	extra := [][]*Cmd{
		{{K: "call", Call: &CallSpec{Name: "deep.rec", Target: "lib.deep.rec", Params: []CallParam{{Key: "n", Value: I(4)}}}}},
		{{K: "call", Call: &CallSpec{Name: "lib.deep.rec", Target: "lib.deep.rec", Params: []CallParam{{Key: "n", Value: call("length", vr("l"))}}}}},
		{{K: "raw", Text: "{sp}{nil}{lb}{rb}{\\n}{\\t}{\\r}", Out: " {}\n\t\r"}, {K: "raw", Text: "{literal}{$x} {{ }}{/literal}", Out: "{$x} {{ }}"}, pr(vr("y"))},
		{{K: "css", Text: "cls"}, {K: "css", E: vr("y"), Text: "suf"}, txt(";")},
	}
	for _, b := range extra {
		tryBody(b, 0)
		tryBody(b, 3)
	}
}

// enumBodies enumerates the entry-template bodies of C02/C07.
func enumBodies(thorough bool, tryBody func(body []*Cmd, variant int)) {
	leaves := c02Leaves()
	// depth-0 bodies: lists of <=3 leaves
	lists0 := [][]*Cmd{{}}
	for _, a := range leaves {
		lists0 = append(lists0, []*Cmd{a})
	}
	for _, a := range leaves {
		for _, b := range leaves {
			lists0 = append(lists0, []*Cmd{a, b})
		}
	}
	for _, l := range lists0 {
		tryBody(l, 0)
		tryBody(l, 3)
	}
	for _, a := range leaves {
		for _, b := range leaves {
			for _, d := range leaves {
				tryBody([]*Cmd{a, b, d}, 1)
			}
		}
	}
	// depth-1: pre + block(inner lists <=2 of leaves) + post
	pres := [][]*Cmd{{}, {{K: "let", Var: "x", E: I(1)}}, {{K: "let", Var: "y", E: S("o")}}, {pr(vr("x"))}}
	posts := [][]*Cmd{{}, {pr(vr("x"))}, {pr(vr("y"))}, {pr(vr("x")), pr(vr("y"))}}
	inner2s := [][]*Cmd{nil, {txt("e")}, {{K: "let", Var: "x", E: I(8)}, pr(vr("x"))}}
	for _, pre := range pres {
		for _, post := range posts {
			for _, in := range lists0 {
				for i2, in2 := range inner2s {
					for bi, blk := range c02Blocks(in, in2) {
						if in2 == nil && blk.Else != nil && i2 == 0 {
							blk.Else = nil
						}
						_ = bi
						body := append(append(append([]*Cmd{}, pre...), blk), post...)
						tryBody(body, (len(in)+i2)&3)
					}
				}
			}
		}
	}
	// depth-2: block(block(inner list <=1 of leaves)) with pre/post (thorough: inner lists <=2)
	inner := lists0[:1+len(leaves)]
	if thorough {
		inner = lists0
	}
	for _, pre := range pres[:3] {
		for _, post := range posts[:3] {
			for _, in := range inner {
				for _, b1 := range c02Blocks(in, []*Cmd{txt("e")}) {
					for _, mid := range [][]*Cmd{{}, {{K: "let", Var: "x", E: I(9)}}, {pr(vr("y"))}} {
						for _, b2 := range c02Blocks(append(append([]*Cmd{}, mid...), b1), []*Cmd{pr(vr("x"))}) {
							body := append(append(append([]*Cmd{}, pre...), b2), post...)
							tryBody(body, 0)
						}
					}
				}
			}
		}
	}
}
