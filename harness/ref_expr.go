package main

// Reference model of Soy expressions (DESIGN.md Appendix A).  Written from the
// language documentation and the property statement; data.* types are used as
// plain value containers only (none of their methods is called).

import (
	"fmt"
	"math"
	"sort"
	"strconv"
	"strings"

	"github.com/robfig/soy/data"
)

type status int

const (
	stOK     status = iota
	stError         // the language leaves the expression without a value: render must fail
	stUnspec        // outside the specified domain: only "returns, no panic, no hang" is checked
)

// E is a generator-side expression tree (the intended structure is known
// without trusting the parser).
type E struct {
	K    string // lit | var | global | un | bin | tern | call | list | map
	Op   string // operator, function name, variable or global name
	A    []*E   // operands / arguments / list items / map values
	Keys []string
	Src  string     // literal source text
	Val  data.Value // literal / global value
	Acc  []Acc      // data reference accesses
}

// Acc is one access of a data reference.
type Acc struct {
	Kind string // dot | qdot | idx | qidx | br | qbr
	Key  string
	Idx  int
	E    *E
}

func lit(src string, v data.Value) *E { return &E{K: "lit", Src: src, Val: v} }
func vr(name string, acc ...Acc) *E   { return &E{K: "var", Op: name, Acc: acc} }
func un(op string, a *E) *E           { return &E{K: "un", Op: op, A: []*E{a}} }
func bin(op string, a, b *E) *E       { return &E{K: "bin", Op: op, A: []*E{a, b}} }
func tern(c, a, b *E) *E              { return &E{K: "tern", A: []*E{c, a, b}} }
func call(name string, args ...*E) *E { return &E{K: "call", Op: name, A: args} }
func glob(name string, v data.Value) *E {
	return &E{K: "global", Op: name, Val: v}
}

var binPrec = map[string]int{
	"*": 7, "/": 7, "%": 7, "+": 6, "-": 6,
	"<": 5, ">": 5, "<=": 5, ">=": 5, "==": 4, "!=": 4,
	"and": 3, "or": 2, "?:": 1,
}

func (e *E) prec() int {
	switch e.K {
	case "bin":
		return binPrec[e.Op]
	case "tern":
		return 1
	case "un":
		return 8
	case "lit":
		// a negative number literal behaves like a unary minus for printing purposes
		return 9
	}
	return 9
}

// Src prints the expression. mode: 0 = minimal parentheses, 1 = fully
// parenthesised (redundant), 2 = no parentheses at all (associativity tests).
func (e *E) String() string { return e.src(0) }

func (e *E) src(mode int) string {
	wrap := func(c *E, need bool) string {
		s := c.src(mode)
		if mode == 2 {
			return s
		}
		if mode == 1 && (c.K == "bin" || c.K == "tern" || c.K == "un") {
			return "(" + s + ")"
		}
		if need {
			return "(" + s + ")"
		}
		return s
	}
	switch e.K {
	case "lit":
		return e.Src
	case "global":
		return e.Op
	case "var":
		s := "$" + e.Op
		for _, a := range e.Acc {
			switch a.Kind {
			case "dot":
				s += "." + a.Key
			case "qdot":
				s += "?." + a.Key
			case "idx":
				s += "." + strconv.Itoa(a.Idx)
			case "qidx":
				s += "?." + strconv.Itoa(a.Idx)
			case "br":
				s += "[" + a.E.src(mode) + "]"
			case "qbr":
				s += "?[" + a.E.src(mode) + "]"
			}
		}
		return s
	case "un":
		c := e.A[0]
		s := wrap(c, c.K == "bin" || c.K == "tern")
		if e.Op == "not" {
			return "not " + s
		}
		if strings.HasPrefix(s, "-") {
			return "-(" + s + ")"
		}
		if strings.HasPrefix(s, "0x") {
			return "- " + s // a signed hex literal is not a number token (pinned by TestScanNumber); unary minus applied to it is
		}
		return "-" + s
	case "bin":
		p := binPrec[e.Op]
		l, r := e.A[0], e.A[1]
		needL := l.prec() < p
		needR := r.prec() <= p
		if e.Op == "?:" {
			needL = l.prec() <= p
			needR = r.K == "tern"
		}
		return wrap(l, needL) + " " + e.Op + " " + wrap(r, needR)
	case "tern":
		c, a, b := e.A[0], e.A[1], e.A[2]
		return wrap(c, c.prec() <= 1) + " ? " + wrap(a, a.prec() <= 1) + " : " + wrap(b, b.K == "bin" && b.Op == "?:")
	case "call":
		var args []string
		for _, a := range e.A {
			args = append(args, a.src(mode))
		}
		return e.Op + "(" + strings.Join(args, ", ") + ")"
	case "list":
		var items []string
		for _, a := range e.A {
			items = append(items, a.src(mode))
		}
		return "[" + strings.Join(items, ", ") + "]"
	case "map":
		if len(e.A) == 0 {
			return "[:]"
		}
		var items []string
		for i, a := range e.A {
			items = append(items, quoteSoy(e.Keys[i])+": "+a.src(mode))
		}
		return "[" + strings.Join(items, ", ") + "]"
	}
	panic("bad E")
}

// quoteSoy renders a Soy string literal.
func quoteSoy(s string) string {
	var b strings.Builder
	b.WriteByte('\'')
	for _, r := range s {
		switch r {
		case '\\':
			b.WriteString(`\\`)
		case '\'':
			b.WriteString(`\'`)
		case '\n':
			b.WriteString(`\n`)
		case '\r':
			b.WriteString(`\r`)
		case '\t':
			b.WriteString(`\t`)
		default:
			b.WriteRune(r)
		}
	}
	b.WriteByte('\'')
	return b.String()
}

// vars returns the variable names the expression uses.
func (e *E) vars(set map[string]bool) {
	if e.K == "var" {
		set[e.Op] = true
		for _, a := range e.Acc {
			if a.E != nil {
				a.E.vars(set)
			}
		}
	}
	for _, a := range e.A {
		a.vars(set)
	}
}

// globals returns the globals the expression uses.
func (e *E) globals(m data.Map) {
	if e.K == "global" {
		m[e.Op] = e.Val
	}
	if e.K == "var" {
		for _, a := range e.Acc {
			if a.E != nil {
				a.E.globals(m)
			}
		}
	}
	for _, a := range e.A {
		a.globals(m)
	}
}

func (e *E) size() int {
	n := 1
	for _, a := range e.A {
		n += a.size()
	}
	for _, a := range e.Acc {
		n++
		if a.E != nil {
			n += a.E.size()
		}
	}
	return n
}

// Env is the data visible to an expression.
type Env struct {
	Vars data.Map          // params / lets / loop variables (absent = undefined)
	IJ   data.Map          // nil = no injected data
	Loop map[string][2]int // loop variable -> (index, last index)
	Miss *[]string         // if set, names looked up that nothing binds are appended here
}

type undef = data.Undefined

func isUndef(v data.Value) bool { _, ok := v.(data.Undefined); return ok }
func isNull(v data.Value) bool  { _, ok := v.(data.Null); return ok }
func isNum(v data.Value) bool {
	switch v.(type) {
	case data.Int, data.Float:
		return true
	}
	return false
}
func toF(v data.Value) float64 {
	switch v := v.(type) {
	case data.Int:
		return float64(v)
	case data.Float:
		return float64(v)
	}
	panic("not a number")
}

// refTruthy is the language's truthiness table.
func refTruthy(v data.Value) bool {
	switch v := v.(type) {
	case data.Undefined, data.Null:
		return false
	case data.Bool:
		return bool(v)
	case data.Int:
		return v != 0
	case data.Float:
		return v != 0 && !math.IsNaN(float64(v))
	case data.String:
		return v != ""
	}
	return true
}

// refFloatDigits: floats whose shortest round-trip form has more digits than this are outside the
// printed domain. 15 where a JavaScript engine's number formatting is compared (C04); 17 (every
// float between 1e-7 and 1e6 in magnitude) where only the Go renderer is judged (C01): the
// shortest round-trip decimal is what Soy's JavaScript semantics print.
var refFloatDigits = 15

// refStr prints a value; ok=false when the printed form is outside the specified domain.
func refStr(v data.Value) (string, bool) {
	switch v := v.(type) {
	case data.Null:
		return "null", true
	case data.Bool:
		if v {
			return "true", true
		}
		return "false", true
	case data.Int:
		return strconv.FormatInt(int64(v), 10), true
	case data.Float:
		f := float64(v)
		if math.IsNaN(f) || math.IsInf(f, 0) {
			return "", false
		}
		if f != 0 && (math.Abs(f) >= 1e6 || math.Abs(f) < 1e-4) {
			return "", false
		}
		if f == 0 && math.Signbit(f) {
			return "", false // -0: unspecified
		}
		s := strconv.FormatFloat(f, 'f', -1, 64)
		if len(strings.ReplaceAll(strings.ReplaceAll(s, ".", ""), "-", "")) > refFloatDigits {
			return "", false
		}
		return s, true
	case data.String:
		return string(v), true
	case data.List:
		parts := make([]string, len(v))
		for i, it := range v {
			s, ok := refStr(it)
			if !ok {
				return "", false
			}
			parts[i] = s
		}
		return "[" + strings.Join(parts, ", ") + "]", true
	case data.Map:
		keys := make([]string, 0, len(v))
		for k := range v {
			keys = append(keys, k)
		}
		sort.Strings(keys)
		parts := make([]string, len(keys))
		for i, k := range keys {
			if isUndef(v[k]) {
				return "", false
			}
			s, ok := refStr(v[k])
			if !ok {
				return "", false
			}
			parts[i] = k + ": " + s
		}
		// sorted by "k: v" item in the implementation; identical unless one key is a prefix of another followed by ':' ordering quirks
		sort.Strings(parts)
		return "{" + strings.Join(parts, ", ") + "}", true
	}
	return "", false
}

// refEscape is the HTML escaper of autoescaping.
func refEscape(s string) string {
	var b strings.Builder
	for i := 0; i < len(s); i++ {
		switch s[i] {
		case '&':
			b.WriteString("&amp;")
		case '<':
			b.WriteString("&lt;")
		case '>':
			b.WriteString("&gt;")
		case '"':
			b.WriteString("&#34;")
		case '\'':
			b.WriteString("&#39;")
		default:
			b.WriteByte(s[i])
		}
	}
	return b.String()
}

// normEntities maps alternative spellings of the same character reference.
func normEntities(s string) string {
	// also inside text that was escaped more than once (&amp;quot; vs &amp;#34;)
	s = strings.ReplaceAll(s, "quot;", "#34;")
	s = strings.ReplaceAll(s, "apos;", "#39;")
	return s
}

const maxExact = 1 << 53

func intRes(f float64, i int64) (data.Value, status) {
	if math.Abs(f) > 9e18 {
		return nil, stUnspec
	}
	return data.Int(i), stOK
}

// Eval evaluates e in env.
func (env *Env) Eval(e *E) (data.Value, status) {
	switch e.K {
	case "lit", "global":
		return e.Val, stOK
	case "list":
		out := make(data.List, len(e.A))
		for i, a := range e.A {
			v, st := env.Eval(a)
			if st != stOK {
				return nil, st
			}
			if isUndef(v) {
				return nil, stUnspec
			}
			out[i] = v
		}
		return out, stOK
	case "map":
		out := make(data.Map, len(e.A))
		for i, a := range e.A {
			v, st := env.Eval(a)
			if st != stOK {
				return nil, st
			}
			if isUndef(v) {
				return nil, stUnspec
			}
			out[e.Keys[i]] = v
		}
		return out, stOK
	case "var":
		return env.evalRef(e)
	case "un":
		v, st := env.Eval(e.A[0])
		if st != stOK {
			return nil, st
		}
		if e.Op == "not" {
			return data.Bool(!refTruthy(v)), stOK
		}
		switch v := v.(type) {
		case data.Int:
			if v == math.MinInt64 {
				return nil, stUnspec
			}
			return data.Int(-v), stOK
		case data.Float:
			return data.Float(-v), stOK
		}
		return nil, stUnspec // negating a non-number
	case "tern":
		c, st := env.Eval(e.A[0])
		if st != stOK {
			return nil, st
		}
		if refTruthy(c) {
			return env.Eval(e.A[1])
		}
		return env.Eval(e.A[2])
	case "bin":
		return env.evalBin(e)
	case "call":
		return env.evalCall(e)
	}
	panic("bad E kind " + e.K)
}

func (env *Env) evalBin(e *E) (data.Value, status) {
	a, st := env.Eval(e.A[0])
	if st != stOK {
		return nil, st
	}
	switch e.Op {
	case "and":
		if !refTruthy(a) {
			return data.Bool(false), stOK
		}
		b, st := env.Eval(e.A[1])
		if st != stOK {
			return nil, st
		}
		return data.Bool(refTruthy(b)), stOK
	case "or":
		if refTruthy(a) {
			return data.Bool(true), stOK
		}
		b, st := env.Eval(e.A[1])
		if st != stOK {
			return nil, st
		}
		return data.Bool(refTruthy(b)), stOK
	case "?:":
		if !isNull(a) && !isUndef(a) {
			return a, stOK
		}
		return env.Eval(e.A[1])
	}
	b, st := env.Eval(e.A[1])
	if st != stOK {
		return nil, st
	}
	ai, aInt := a.(data.Int)
	bi, bInt := b.(data.Int)
	_, aStr := a.(data.String)
	_, bStr := b.(data.String)
	switch e.Op {
	case "+":
		switch {
		case aInt && bInt:
			return intRes(float64(ai)+float64(bi), int64(ai)+int64(bi))
		case aStr || bStr:
			if isUndef(a) || isUndef(b) {
				return nil, stUnspec
			}
			sa, ok1 := refStr(a)
			sb, ok2 := refStr(b)
			if !ok1 || !ok2 {
				return nil, stUnspec
			}
			return data.String(sa + sb), stOK
		case isNum(a) && isNum(b):
			return data.Float(toF(a) + toF(b)), stOK
		}
		return nil, stUnspec
	case "-":
		switch {
		case aInt && bInt:
			return intRes(float64(ai)-float64(bi), int64(ai)-int64(bi))
		case isNum(a) && isNum(b):
			return data.Float(toF(a) - toF(b)), stOK
		}
		return nil, stUnspec
	case "*":
		switch {
		case aInt && bInt:
			return intRes(float64(ai)*float64(bi), int64(ai)*int64(bi))
		case isNum(a) && isNum(b):
			return data.Float(toF(a) * toF(b)), stOK
		}
		return nil, stUnspec
	case "/":
		if isNum(a) && isNum(b) {
			if toF(b) == 0 {
				return nil, stUnspec
			}
			return data.Float(toF(a) / toF(b)), stOK
		}
		return nil, stUnspec
	case "%":
		if aInt && bInt {
			if bi == 0 {
				return nil, stUnspec
			}
			return data.Int(ai % bi), stOK
		}
		return nil, stUnspec
	case "<", ">", "<=", ">=":
		if !isNum(a) || !isNum(b) {
			return nil, stError // ordering non-numbers
		}
		x, y := toF(a), toF(b)
		if (aInt && math.Abs(x) > maxExact) || (bInt && math.Abs(y) > maxExact) {
			return nil, stUnspec
		}
		var r bool
		switch e.Op {
		case "<":
			r = x < y
		case ">":
			r = x > y
		case "<=":
			r = x <= y
		case ">=":
			r = x >= y
		}
		return data.Bool(r), stOK
	case "==", "!=":
		eq, ok := refEquals(a, b)
		if !ok {
			// a list or map is equal to itself: the same variable (without computed parts) on both sides
			// denotes one object, whatever it holds; other comparisons of collections are unspecified.
			x, y := e.A[0], e.A[1]
			_, isL := a.(data.List)
			_, isM := a.(data.Map)
			if (isL || isM) && x.K == "var" && y.K == "var" && len(x.Acc) == 0 && len(y.Acc) == 0 && x.Op == y.Op {
				eq, ok = true, true
			}
		}
		if !ok {
			return nil, stUnspec
		}
		if e.Op == "!=" {
			eq = !eq
		}
		return data.Bool(eq), stOK
	}
	panic("bad op " + e.Op)
}

// refEquals: strict equality with int/float numeric equality; collections and
// undefined are outside the specified domain.
func refEquals(a, b data.Value) (eq, ok bool) {
	switch a.(type) {
	case data.Undefined, data.List, data.Map:
		return false, false
	}
	switch b.(type) {
	case data.Undefined, data.List, data.Map:
		return false, false
	}
	if isNum(a) && isNum(b) {
		ai, aInt := a.(data.Int)
		bi, bInt := b.(data.Int)
		if aInt && bInt {
			return ai == bi, true
		}
		if (aInt && math.Abs(float64(ai)) > maxExact) || (bInt && math.Abs(float64(bi)) > maxExact) {
			return false, false
		}
		return toF(a) == toF(b), true
	}
	switch a := a.(type) {
	case data.Null:
		_, ok := b.(data.Null)
		return ok, true
	case data.Bool:
		b, ok := b.(data.Bool)
		return ok && a == b, true
	case data.String:
		b, ok := b.(data.String)
		return ok && a == b, true
	}
	return false, true // different kinds
}

func (env *Env) evalRef(e *E) (data.Value, status) {
	var cur data.Value
	if e.Op == "ij" {
		if env.IJ == nil {
			return nil, stUnspec // referencing $ij without injected data
		}
		cur = env.IJ
	} else {
		v, ok := env.Vars[e.Op]
		if !ok {
			cur = undef{}
			if env.Miss != nil {
				*env.Miss = append(*env.Miss, e.Op)
			}
		} else {
			cur = v
		}
	}
	for _, a := range e.Acc {
		nullsafe := a.Kind[0] == 'q'
		// resolve the key / index first (the implementation evaluates the bracket expression before looking at the object)
		var key string
		idx := -1
		isIdx := false
		switch a.Kind {
		case "dot", "qdot":
			key = a.Key
		case "idx", "qidx":
			idx, isIdx = a.Idx, true
		case "br", "qbr":
			kv, st := env.Eval(a.E)
			if st != stOK {
				return nil, st
			}
			switch kv := kv.(type) {
			case data.Int:
				idx, isIdx = int(kv), true
			case data.String:
				key = string(kv)
			default:
				return nil, stUnspec
			}
		}
		if isNull(cur) || isUndef(cur) {
			if nullsafe {
				return data.Null{}, stOK // the whole remaining chain yields null
			}
			return nil, stError
		}
		switch obj := cur.(type) {
		case data.List:
			if !isIdx {
				return nil, stUnspec
			}
			if idx < 0 {
				return nil, stUnspec
			}
			if idx >= len(obj) {
				cur = undef{}
			} else {
				cur = obj[idx]
			}
		case data.Map:
			if isIdx || key == "" {
				return nil, stUnspec
			}
			v, ok := obj[key]
			if !ok {
				cur = undef{}
			} else {
				cur = v
			}
		default:
			return nil, stError // indexing a non-collection
		}
	}
	return cur, stOK
}

func (env *Env) evalCall(e *E) (data.Value, status) {
	// loop functions take a variable name, not a value.
	switch e.Op {
	case "index", "isFirst", "isLast":
		if len(e.A) != 1 || e.A[0].K != "var" || len(e.A[0].Acc) != 0 {
			return nil, stUnspec
		}
		l, ok := env.Loop[e.A[0].Op]
		if !ok {
			return nil, stUnspec
		}
		switch e.Op {
		case "index":
			return data.Int(l[0]), stOK
		case "isFirst":
			return data.Bool(l[0] == 0), stOK
		default:
			return data.Bool(l[0] == l[1]), stOK
		}
	}
	// the number of keys of a map does not depend on the (unspecified) order of keys().
	if e.Op == "length" && len(e.A) == 1 && e.A[0].K == "call" && e.A[0].Op == "keys" && len(e.A[0].A) == 1 {
		v, st := env.Eval(e.A[0].A[0])
		if st != stOK {
			return nil, st
		}
		if m, ok := v.(data.Map); ok {
			return data.Int(len(m)), stOK
		}
		return nil, stUnspec
	}
	args := make([]data.Value, len(e.A))
	for i, a := range e.A {
		v, st := env.Eval(a)
		if st != stOK {
			return nil, st
		}
		args[i] = v
	}
	num := func(i int) bool { return i < len(args) && isNum(args[i]) }
	switch e.Op {
	case "isNonnull":
		if len(args) != 1 {
			return nil, stUnspec
		}
		return data.Bool(!isNull(args[0]) && !isUndef(args[0])), stOK
	case "length":
		if l, ok := args[0].(data.List); ok && len(args) == 1 {
			return data.Int(len(l)), stOK
		}
		return nil, stUnspec
	case "keys":
		if m, ok := args[0].(data.Map); ok && len(args) == 1 {
			if len(m) > 1 {
				return nil, stUnspec // order unspecified
			}
			out := data.List{}
			for k := range m {
				out = append(out, data.String(k))
			}
			return out, stOK
		}
		return nil, stUnspec
	case "augmentMap":
		if len(args) == 2 {
			m1, ok1 := args[0].(data.Map)
			m2, ok2 := args[1].(data.Map)
			if ok1 && ok2 {
				out := data.Map{}
				for k, v := range m1 {
					out[k] = v
				}
				for k, v := range m2 {
					out[k] = v
				}
				return out, stOK
			}
		}
		return nil, stUnspec
	case "round":
		if !num(0) {
			return nil, stUnspec
		}
		x := toF(args[0])
		if len(args) == 1 {
			if x < 0 && isHalf(x) {
				return nil, stUnspec // ties on negative numbers
			}
			return data.Int(int64(math.Floor(x + 0.5))), stOK
		}
		d, ok := args[1].(data.Int)
		if !ok || len(args) != 2 || d < -6 || d > 6 {
			return nil, stUnspec
		}
		p := math.Pow(10, float64(d))
		y := x * p
		if isHalf(y) {
			return nil, stUnspec
		}
		r := math.Floor(y+0.5) / p
		if d <= 0 {
			return data.Int(int64(r)), stOK
		}
		return data.Float(r), stOK
	case "floor", "ceiling":
		if !num(0) || len(args) != 1 {
			return nil, stUnspec
		}
		if i, ok := args[0].(data.Int); ok {
			return i, stOK
		}
		if e.Op == "floor" {
			return data.Int(int64(math.Floor(toF(args[0])))), stOK
		}
		return data.Int(int64(math.Ceil(toF(args[0])))), stOK
	case "min", "max":
		if !num(0) || !num(1) || len(args) != 2 {
			return nil, stUnspec
		}
		ai, aInt := args[0].(data.Int)
		bi, bInt := args[1].(data.Int)
		if aInt && bInt {
			if (e.Op == "min") == (ai < bi) {
				return ai, stOK
			}
			return bi, stOK
		}
		if e.Op == "min" {
			return data.Float(math.Min(toF(args[0]), toF(args[1]))), stOK
		}
		return data.Float(math.Max(toF(args[0]), toF(args[1]))), stOK
	case "strContains":
		if len(args) == 2 {
			a, ok1 := args[0].(data.String)
			b, ok2 := args[1].(data.String)
			if ok1 && ok2 {
				return data.Bool(strings.Contains(string(a), string(b))), stOK
			}
		}
		return nil, stUnspec
	case "range":
		start, step := 0, 1
		var limit int
		ints := make([]int, len(args))
		for i, a := range args {
			v, ok := a.(data.Int)
			if !ok {
				return nil, stUnspec
			}
			ints[i] = int(v)
		}
		switch len(ints) {
		case 1:
			limit = ints[0]
		case 2:
			start, limit = ints[0], ints[1]
		case 3:
			start, limit, step = ints[0], ints[1], ints[2]
		default:
			return nil, stUnspec
		}
		if step <= 0 {
			return nil, stUnspec
		}
		out := data.List{}
		for i := start; i < limit; i += step {
			out = append(out, data.Int(i))
			if len(out) > 10000 {
				return nil, stUnspec
			}
		}
		return out, stOK
	case "hasData":
		if len(args) == 0 {
			return data.Bool(true), stOK
		}
	}
	return nil, stUnspec
}

func isHalf(x float64) bool {
	f := x - math.Floor(x)
	return f == 0.5
}

// printed is what `{e}` must write under autoescape on.
func (env *Env) printed(e *E) (string, status) {
	v, st := env.Eval(e)
	if st != stOK {
		return "", st
	}
	if isUndef(v) {
		return "", stError // printing undefined
	}
	s, ok := refStr(v)
	if !ok {
		return "", stUnspec
	}
	return refEscape(s), stOK
}

var _ = fmt.Sprint
