package main

// Reference model of Soy commands, scoping and calls (DESIGN.md Appendix A),
// plus the reference data-reference checker of C07.  Written from the language
// rules in the property statements, not from the implementation.

import (
	"fmt"
	"sort"
	"strings"

	"github.com/robfig/soy/data"
)

// Cmd is a generator-side command tree.
type Cmd struct {
	K     string // text | raw | print | if | switch | foreach | for | let | letc | call | css | log | msg | plural
	Text  string // text: literal text (no whitespace subtleties); raw: exact source that yields Text2
	Out   string // raw: what the source writes
	E     *E     // print value / switch value / loop list / let value / css prefix / plural value
	Dirs  string // print directives source (C03 uses it)
	Var   string // let / loop variable
	Conds []Branch
	Body  []*Cmd // loop body / let content / log / msg body
	Else  []*Cmd // else branch / ifempty / default (nil = absent)
	Call  *CallSpec
}

// Branch is an if/elseif branch or a switch case.
type Branch struct {
	E    *E   // if: condition
	Vals []*E // switch: case values
	Body []*Cmd
}

// CallSpec describes a call command.
type CallSpec struct {
	Name    string // as written: .rel, ns.full or alias.name
	Target  string // fully qualified name it must resolve to
	AllData bool
	Data    *E
	Params  []CallParam
}

type CallParam struct {
	Key     string
	Value   *E     // value param
	Content []*Cmd // content param (Value == nil)
	Attr    bool   // written as key="..." value="..." / key="..."
}

// Tmpl is a generated template.
type Tmpl struct {
	NS       string // namespace
	Name     string // short name (without leading dot)
	Params   []Param
	Defaults map[string]string // header params written with a default value: {@param r: ? = 3} (still required)
	Header   bool              // header params instead of soydoc
	BothDecl int  // (C07) both soydoc and header params: 0 no; 1 every param in both; 2 first param in the soydoc, the others in the header; 3 last param in the header, the others in the soydoc
	Body     []*Cmd
	Autoesc  string // template autoescape attribute ("" = unset)
	NoDoc    bool
}

type Param struct {
	Name     string
	Optional bool
}

// File is a generated Soy file.
type File struct {
	Name    string
	NS      string
	NSAttr  string // namespace autoescape attribute
	Aliases []string
	Tmpls   []*Tmpl
}

func (t *Tmpl) FQ() string { return t.NS + "." + t.Name }

// ---------------------------------------------------------------- printing

func srcCmds(cs []*Cmd) string {
	var b strings.Builder
	for _, c := range cs {
		b.WriteString(c.src())
	}
	return b.String()
}

func (c *Cmd) src() string {
	switch c.K {
	case "text":
		return c.Text
	case "raw":
		return c.Text
	case "print":
		return "{" + c.E.String() + c.Dirs + "}"
	case "if":
		s := ""
		for i, br := range c.Conds {
			if i == 0 {
				s += "{if " + br.E.String() + "}"
			} else {
				s += "{elseif " + br.E.String() + "}"
			}
			s += srcCmds(br.Body)
		}
		if c.Else != nil {
			s += "{else}" + srcCmds(c.Else)
		}
		return s + "{/if}"
	case "switch":
		s := "{switch " + c.E.String() + "}"
		for _, br := range c.Conds {
			var vs []string
			for _, v := range br.Vals {
				vs = append(vs, v.String())
			}
			s += "{case " + strings.Join(vs, ", ") + "}" + srcCmds(br.Body)
		}
		if c.Else != nil {
			s += "{default}" + srcCmds(c.Else)
		}
		return s + "{/switch}"
	case "foreach":
		s := "{foreach $" + c.Var + " in " + c.E.String() + "}" + srcCmds(c.Body)
		if c.Else != nil {
			s += "{ifempty}" + srcCmds(c.Else)
		}
		return s + "{/foreach}"
	case "for":
		s := "{for $" + c.Var + " in " + c.E.String() + "}" + srcCmds(c.Body)
		if c.Else != nil {
			s += "{ifempty}" + srcCmds(c.Else)
		}
		return s + "{/for}"
	case "let":
		return "{let $" + c.Var + ": " + c.E.String() + " /}"
	case "letc":
		return "{let $" + c.Var + "}" + srcCmds(c.Body) + "{/let}"
	case "css":
		if c.E != nil {
			return "{css " + c.E.String() + ", " + c.Text + "}"
		}
		return "{css " + c.Text + "}"
	case "log":
		return "{log}" + srcCmds(c.Body) + "{/log}"
	case "msg":
		return "{msg desc=\"d\"}" + srcCmds(c.Body) + "{/msg}"
	case "call":
		cs := c.Call
		s := "{call " + cs.Name
		if cs.AllData {
			s += " data=\"all\""
		} else if cs.Data != nil {
			s += " data=\"" + cs.Data.String() + "\""
		}
		if len(cs.Params) == 0 {
			return s + "/}"
		}
		s += "}"
		for _, p := range cs.Params {
			switch {
			case p.Value != nil && p.Attr:
				s += "{param key=\"" + p.Key + "\" value=\"" + p.Value.String() + "\"/}"
			case p.Value != nil:
				s += "{param " + p.Key + ": " + p.Value.String() + " /}"
			case p.Attr:
				s += "{param key=\"" + p.Key + "\"}" + srcCmds(p.Content) + "{/param}"
			default:
				s += "{param " + p.Key + "}" + srcCmds(p.Content) + "{/param}"
			}
		}
		return s + "{/call}"
	}
	panic("bad cmd " + c.K)
}

func (t *Tmpl) src() string {
	var b strings.Builder
	inDoc := func(i int) bool {
		switch t.BothDecl {
		case 1:
			return true
		case 2:
			return i == 0
		case 3:
			return i != len(t.Params)-1
		}
		return !t.Header
	}
	inHeader := func(i int) bool {
		switch t.BothDecl {
		case 1:
			return true
		case 2:
			return i != 0
		case 3:
			return i == len(t.Params)-1
		}
		return t.Header
	}
	if !t.NoDoc && (!t.Header || t.BothDecl != 0) {
		b.WriteString("/**\n")
		for i, p := range t.Params {
			if !inDoc(i) {
				continue
			}
			if p.Optional {
				b.WriteString(" * @param? " + p.Name + "\n")
			} else {
				b.WriteString(" * @param " + p.Name + "\n")
			}
		}
		b.WriteString(" */\n")
	}
	b.WriteString("{template ." + t.Name)
	if t.Autoesc != "" {
		b.WriteString(" autoescape=\"" + t.Autoesc + "\"")
	}
	b.WriteString("}\n")
	for i, p := range t.Params {
		if !inHeader(i) {
			continue
		}
		def := ""
		if d, ok := t.Defaults[p.Name]; ok {
			def = " = " + d
		}
		if p.Optional {
			b.WriteString("{@param? " + p.Name + ": ?" + def + "}\n")
		} else {
			b.WriteString("{@param " + p.Name + ": ?" + def + "}\n")
		}
	}
	b.WriteString(srcCmds(t.Body))
	b.WriteString("\n{/template}\n")
	return b.String()
}

func (f *File) src() string {
	var b strings.Builder
	b.WriteString("{namespace " + f.NS)
	if f.NSAttr != "" {
		b.WriteString(" autoescape=\"" + f.NSAttr + "\"")
	}
	b.WriteString("}\n")
	for _, a := range f.Aliases {
		b.WriteString("{alias " + a + "}\n")
	}
	for _, t := range f.Tmpls {
		b.WriteString("\n" + t.src())
	}
	return b.String()
}

// ---------------------------------------------------------------- scoping

type binding struct {
	name   string
	kind   string // param | let | loop
	used   bool
	viaAll bool // param passed on by data="all" to a callee that declares it
	val    data.Value
	loop   [2]int
}

type frame struct {
	vars   []*binding
	parent *frame
}

func (f *frame) lookup(name string) *binding {
	for fr := f; fr != nil; fr = fr.parent {
		for i := len(fr.vars) - 1; i >= 0; i-- {
			if fr.vars[i].name == name {
				return fr.vars[i]
			}
		}
	}
	return nil
}

// ---------------------------------------------------------------- rule checker (C07)

type ruleSet map[string]bool

func (r ruleSet) list() []string {
	var out []string
	for k := range r {
		out = append(out, k)
	}
	sort.Strings(out)
	return out
}

// checkRules applies the data-reference rules to a bundle.
func checkRules(files []*File) ruleSet {
	rules := ruleSet{}
	tmpls := map[string]*Tmpl{}
	for _, f := range files {
		for _, t := range f.Tmpls {
			if _, dup := tmpls[t.FQ()]; !dup {
				tmpls[t.FQ()] = t
			}
		}
	}
	for _, f := range files {
		for _, t := range f.Tmpls {
			if t.BothDecl == 1 && len(t.Params) > 0 || t.BothDecl > 1 && len(t.Params) > 1 {
				rules["both-soydoc-and-header-params"] = true
			}
			top := &frame{}
			for _, p := range t.Params {
				top.vars = append(top.vars, &binding{name: p.Name, kind: "param"})
			}
			ck := &checker{rules: rules, tmpls: tmpls, params: top, shadow: map[string]bool{}}
			ck.block(t.Body, top)
			for _, b := range top.vars {
				// a param handed on by data="all" is used, also where a let or loop variable of the same
				// name is in scope at the call (data="all" passes the params, never the locals).
				if !b.used && !b.viaAll {
					rules["unused-param"] = true
				}
			}
		}
	}
	return rules
}

type checker struct {
	rules  ruleSet
	tmpls  map[string]*Tmpl
	params *frame
	shadow map[string]bool // names of let / loop variables anywhere in the template
}

func (ck *checker) expr(e *E, fr *frame) {
	if e == nil {
		return
	}
	if e.K == "var" {
		if e.Op != "ij" {
			if b := fr.lookup(e.Op); b != nil {
				b.used = true
			} else {
				ck.rules["unbound-reference"] = true
			}
		}
		for _, a := range e.Acc {
			ck.expr(a.E, fr)
		}
	}
	for _, a := range e.A {
		ck.expr(a, fr)
	}
}

// block checks a command list in a fresh scope; lets must be used before the block ends.
func (ck *checker) block(cs []*Cmd, parent *frame) {
	fr := &frame{parent: parent}
	ck.cmds(cs, fr)
	for _, b := range fr.vars {
		if b.kind == "let" && !b.used {
			ck.rules["unused-let"] = true
		}
	}
}

func (ck *checker) cmds(cs []*Cmd, fr *frame) {
	for _, c := range cs {
		switch c.K {
		case "text", "raw":
		case "print":
			ck.expr(c.E, fr)
		case "css":
			ck.expr(c.E, fr)
		case "if":
			for _, br := range c.Conds {
				ck.expr(br.E, fr)
				ck.block(br.Body, fr)
			}
			if c.Else != nil {
				ck.block(c.Else, fr)
			}
		case "switch":
			ck.expr(c.E, fr)
			for _, br := range c.Conds {
				for _, v := range br.Vals {
					ck.expr(v, fr)
				}
				ck.block(br.Body, fr)
			}
			if c.Else != nil {
				ck.block(c.Else, fr)
			}
		case "foreach", "for":
			ck.expr(c.E, fr) // the list cannot see the loop variable
			ck.shadow[c.Var] = true
			lf := &frame{parent: fr, vars: []*binding{{name: c.Var, kind: "loop"}}}
			ck.block(c.Body, lf)
			if c.Else != nil {
				ck.block(c.Else, fr)
			}
		case "let":
			if c.Var == "ij" {
				ck.rules["let-named-ij"] = true
			}
			ck.shadow[c.Var] = true
			ck.expr(c.E, fr) // the value cannot see the variable being defined
			fr.vars = append(fr.vars, &binding{name: c.Var, kind: "let"})
		case "letc":
			if c.Var == "ij" {
				ck.rules["let-named-ij"] = true
			}
			ck.shadow[c.Var] = true
			ck.block(c.Body, fr)
			fr.vars = append(fr.vars, &binding{name: c.Var, kind: "let"})
		case "log", "msg":
			ck.block(c.Body, fr)
		case "call":
			cs := c.Call
			callee, ok := ck.tmpls[cs.Target]
			if !ok {
				ck.rules["unknown-callee"] = true
			}
			ck.expr(cs.Data, fr)
			passed := map[string]bool{}
			for _, p := range cs.Params {
				passed[p.Key] = true
				if p.Value != nil {
					ck.expr(p.Value, fr)
				} else {
					ck.block(p.Content, fr)
				}
				if ok && !callee.has(p.Key) {
					ck.rules["undeclared-call-param"] = true
				}
			}
			if ok {
				if cs.AllData {
					// the caller's params the callee declares are passed on (and thereby used)
					for _, b := range ck.params.vars {
						if callee.has(b.name) {
							b.viaAll = true
							passed[b.name] = true
						}
					}
				}
				if cs.Data == nil {
					for _, p := range callee.Params {
						if !p.Optional && !passed[p.Name] {
							ck.rules["missing-required-param"] = true
						}
					}
				}
			}
		}
	}
}

func (t *Tmpl) has(name string) bool {
	for _, p := range t.Params {
		if p.Name == name {
			return true
		}
	}
	return false
}

// ---------------------------------------------------------------- interpreter

type refExec struct {
	tmpls  map[string]*Tmpl
	files  map[string]*File // by namespace
	ij     data.Map
	st     status // worst status seen (stOK / stError / stUnspec)
	depth  int
	steps  int
	misses []string // names looked up that no binding supplies (declared-but-unset params)
}

type rctx struct {
	fr     *frame
	data   data.Map // the template's data (params as passed), for data="all"
	escape bool
	out    *strings.Builder
	tmpl   *Tmpl
	halted bool
}

func (x *refExec) fail(st status) {
	if x.st == stOK || (x.st == stError && st == stUnspec) {
		x.st = st
	}
}

func envOf(fr *frame, ij data.Map) *Env {
	env := &Env{Vars: data.Map{}, IJ: ij, Loop: map[string][2]int{}}
	// innermost binding wins: walk outwards and keep the first seen.
	for f := fr; f != nil; f = f.parent {
		for i := len(f.vars) - 1; i >= 0; i-- {
			b := f.vars[i]
			if _, ok := env.Vars[b.name]; ok {
				continue
			}
			if _, ok := env.Loop[b.name]; ok {
				continue
			}
			if b.val != nil {
				env.Vars[b.name] = b.val
			} else {
				// declared but not supplied: undefined. Mark so outer bindings stay hidden.
				env.Vars[b.name] = undef{}
			}
			if b.kind == "loop" {
				env.Loop[b.name] = b.loop
			}
		}
	}
	for k, v := range env.Vars {
		if isUndef(v) {
			delete(env.Vars, k)
		}
	}
	return env
}

func (x *refExec) eval(e *E, c *rctx) (data.Value, bool) {
	env := envOf(c.fr, x.ij)
	env.Miss = &x.misses
	v, st := env.Eval(e)
	if st != stOK {
		x.fail(st)
		return nil, false
	}
	return v, true
}

func effectiveEscape(f *File, t *Tmpl) bool {
	mode := t.Autoesc
	if mode == "" {
		mode = f.NSAttr
	}
	return mode != "false"
}

// run executes template fq with the given data and returns (output, status).
func (x *refExec) run(fq string, d data.Map) (string, status) {
	var out strings.Builder
	x.st = stOK
	x.call(fq, d, &out)
	return out.String(), x.st
}

func (x *refExec) call(fq string, d data.Map, out *strings.Builder) {
	t, ok := x.tmpls[fq]
	if !ok {
		x.fail(stUnspec)
		return
	}
	x.depth++
	defer func() { x.depth-- }()
	if x.depth > 40 {
		x.fail(stUnspec)
		return
	}
	top := &frame{}
	for _, p := range t.Params {
		b := &binding{name: p.Name, kind: "param"}
		if v, ok := d[p.Name]; ok {
			b.val = v
		}
		top.vars = append(top.vars, b)
	}
	// data passed but not declared is still visible to the callee (the language
	// checks declarations at compile time only); keep it reachable.
	for k, v := range d {
		if !t.has(k) {
			top.vars = append(top.vars, &binding{name: k, kind: "param", val: v})
		}
	}
	c := &rctx{fr: top, data: d, escape: effectiveEscape(x.files[t.NS], t), out: out, tmpl: t}
	x.block(t.Body, c)
}

func (x *refExec) block(cs []*Cmd, c *rctx) {
	inner := *c
	inner.fr = &frame{parent: c.fr}
	x.cmds(cs, &inner)
}

func (x *refExec) capture(cs []*Cmd, c *rctx) string {
	var buf strings.Builder
	inner := *c
	inner.out = &buf
	x.block(cs, &inner)
	return buf.String()
}

func (x *refExec) cmds(cs []*Cmd, c *rctx) {
	for _, cm := range cs {
		if x.st != stOK {
			return
		}
		x.steps++
		if x.steps > 200000 {
			x.fail(stUnspec)
			return
		}
		switch cm.K {
		case "text":
			c.out.WriteString(cm.Text)
		case "raw":
			c.out.WriteString(cm.Out)
		case "print":
			v, ok := x.eval(cm.E, c)
			if !ok {
				return
			}
			if isUndef(v) {
				x.fail(stError)
				return
			}
			s, ok := refStr(v)
			if !ok {
				x.fail(stUnspec)
				return
			}
			if cm.Dirs != "" {
				x.fail(stUnspec) // directives are C03/C16's business
				return
			}
			if c.escape {
				s = refEscape(s)
			}
			c.out.WriteString(s)
		case "css":
			if cm.E != nil {
				v, ok := x.eval(cm.E, c)
				if !ok {
					return
				}
				s, ok := refStr(v)
				if !ok || isUndef(v) {
					x.fail(stUnspec)
					return
				}
				c.out.WriteString(s + "-")
			}
			c.out.WriteString(cm.Text)
		case "if":
			done := false
			for _, br := range cm.Conds {
				v, ok := x.eval(br.E, c)
				if !ok {
					return
				}
				if refTruthy(v) {
					x.block(br.Body, c)
					done = true
					break
				}
			}
			if !done && cm.Else != nil {
				x.block(cm.Else, c)
			}
		case "switch":
			v, ok := x.eval(cm.E, c)
			if !ok {
				return
			}
			matched := false
		cases:
			for _, br := range cm.Conds {
				for _, ve := range br.Vals {
					cv, ok := x.eval(ve, c)
					if !ok {
						return
					}
					eq, ok := refEquals(v, cv)
					if !ok {
						x.fail(stUnspec)
						return
					}
					if eq {
						x.block(br.Body, c)
						matched = true
						break cases
					}
				}
			}
			if !matched && cm.Else != nil {
				x.block(cm.Else, c)
			}
		case "foreach", "for":
			v, ok := x.eval(cm.E, c)
			if !ok {
				return
			}
			l, isList := v.(data.List)
			if !isList {
				x.fail(stUnspec)
				return
			}
			if len(l) == 0 {
				if cm.Else != nil {
					x.block(cm.Else, c)
				}
				break
			}
			for i, it := range l {
				inner := *c
				inner.fr = &frame{parent: c.fr, vars: []*binding{{name: cm.Var, kind: "loop", val: it, loop: [2]int{i, len(l) - 1}}}}
				x.block(cm.Body, &inner)
				if x.st != stOK {
					return
				}
			}
		case "let":
			v, ok := x.eval(cm.E, c)
			if !ok {
				return
			}
			c.fr.vars = append(c.fr.vars, &binding{name: cm.Var, kind: "let", val: v})
		case "letc":
			s := x.capture(cm.Body, c)
			c.fr.vars = append(c.fr.vars, &binding{name: cm.Var, kind: "let", val: data.String(s)})
		case "log":
			x.capture(cm.Body, c)
		case "msg":
			x.block(cm.Body, c)
		case "call":
			cs := cm.Call
			passed := data.Map{}
			switch {
			case cs.AllData:
				for k, v := range c.data {
					passed[k] = v
				}
			case cs.Data != nil:
				v, ok := x.eval(cs.Data, c)
				if !ok {
					return
				}
				m, isMap := v.(data.Map)
				if !isMap {
					x.fail(stUnspec)
					return
				}
				for k, v := range m {
					passed[k] = v
				}
			}
			for _, p := range cs.Params {
				if p.Value != nil {
					v, ok := x.eval(p.Value, c)
					if !ok {
						return
					}
					if isUndef(v) {
						// passing an undefined value: the callee sees the param as unset
						delete(passed, p.Key)
						x.fail(stUnspec)
						return
					}
					passed[p.Key] = v
				} else {
					passed[p.Key] = data.String(x.capture(p.Content, c))
				}
				if x.st != stOK {
					return
				}
			}
			x.call(cs.Target, passed, c.out)
		default:
			panic("ref: bad cmd " + cm.K)
		}
	}
}

func newRefExec(files []*File, ij data.Map) *refExec {
	x := &refExec{tmpls: map[string]*Tmpl{}, files: map[string]*File{}, ij: ij}
	for _, f := range files {
		if _, ok := x.files[f.NS]; !ok {
			x.files[f.NS] = f
		}
		for _, t := range f.Tmpls {
			if _, dup := x.tmpls[t.FQ()]; !dup {
				x.tmpls[t.FQ()] = t
			}
		}
	}
	return x
}

var _ = fmt.Sprint
