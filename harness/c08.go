package main

import (
	"bytes"
	"fmt"
	"strings"

	"github.com/robfig/soy"
	"github.com/robfig/soy/data"
	"github.com/robfig/soy/parse"
	"github.com/robfig/soy/soyhtml"
	"github.com/robfig/soy/soyjs"
	"github.com/robfig/soy/soymsg"
	"github.com/robfig/soy/template"
	"verif/vrt"
)

func init() { register("C08", checkC08) }

// packageState returns pointers to the process-wide registries of the soy
// packages: all package-level variables in the instrumented build (generated
// registry), the exported user-extensible ones otherwise.
func packageState() []any {
	if vs := vrt.Vars(); len(vs) > 0 {
		var out []any
		for _, v := range vs {
			switch v.Name {
			case "soyhtml.Logger", "soy.Logger": // *log.Logger holds a mutex and an output writer; not render state
				continue
			}
			out = append(out, v.Name, v.Ptr)
		}
		return out
	}
	return []any{&soyhtml.Funcs, &soyhtml.PrintDirectives, &soyhtml.ObligatoryPrintDirectiveNames, &soyjs.Funcs, &soyjs.PrintDirectives, &data.DefaultStructOptions}
}

type c08world struct {
	reg    *template.Registry
	tofu   *soyhtml.Tofu
	datas  []data.Map
	ij     data.Map
	bundle soymsg.Bundle
}

type c08op struct {
	name string
	run  func(w *c08world) string
}

type c08case struct {
	Bundle  string            `json:"bundle"`
	Config  string            `json:"config"`
	History []string          `json:"history"`
	Files   map[string]string `json:"files,omitempty"`
}

func c08Bundles() map[string][]string {
	return map[string][]string{
		"core": {
			"{namespace p.one}\n{alias p.two}\n/**\n * @param? a\n * @param? b\n * @param? l\n * @param? m\n */\n{template .main}\n" +
				"{$a}{$a|id|truncate:3}{$b|noAutoescape|truncate:2}{$a|truncate:4|escapeHtml}" +
				"{let $t: $a + 'z' /}{$t}{foreach $i in $l}{$i}{if isLast($i)}.{/if}{ifempty}e{/foreach}" +
				"{call two.show data=\"$m\"}{param label: 'override' /}{/call}" +
				"{call two.show data=\"$m ?: $b\"}{param label}c{$a}{/param}{/call}" +
				"{call two.show data=\"all\"}{param label: $a /}{/call}{call two.show/}" +
				"{augmentMap($m, ['extra': 1])}{$m}{keys(['only': 1])}{['k': $a, 'j': [1, $a]]}" +
				"{msg desc=\"d\"}Hi <b>{$a}</b> {$b}{/msg}{css $a, c}{G_ONE}" +
				"\n{/template}\n/** @param x */\n{template .fails}\nbefore{$x}{1 < 'a'}after\n{/template}\n",
			"{namespace p.two}\n/**\n * @param? label\n * @param? a\n */\n{template .show}\n<{$label ?: 'none'}|fb:{$a ?: 'na'}>{let $label: 'inner' /}{$label}\n{/template}\n",
		},
		// two messages with one id (same text, same placeholder name) but different placeholder contents
		"msgs": {
			"{namespace z}\n/**\n * @param? b\n */\n{template .one}\n{msg desc=\"d\"}Hello {$b.label}!{/msg}\n{/template}\n" +
				"/**\n * @param? b\n * @param? m\n */\n{template .two}\n{msg desc=\"d\"}Hello {$m.label}!{/msg}{if false}{$b}{/if}\n{/template}\n",
		},
		// a custom function that hands back its argument: the map a call extends with its params is
		// then the caller's own (the function exists only in the configurations that install it)
		"funcs": {
			"{namespace u}\n/**\n * @param? m\n * @param? b\n */\n{template .via}\n{call .row data=\"ident($m)\"}{param i: 5 /}{/call}[{$m?.i ?: 'no i'}]" +
				"{call .row data=\"ident($b)\"}{param i}c{/param}{param label: 'L' /}{/call}[{$b?.label ?: 'no label'}]\n{/template}\n" +
				"/**\n * @param i\n * @param? label\n */\n{template .row}\n({$i}:{$label ?: 'nl'})\n{/template}\n",
		},
		"loops": {
			"{namespace q}\n/**\n * @param l\n * @param? m\n */\n{template .main}\n{foreach $x in $l}{foreach $y in $x}{$y}{ifempty}-{/foreach}|{/foreach}after" +
				"{for $i in range(2)}{call .row}{param i: $i /}{/call}{/for}{call .row}{param i: 9 /}{param m: $m /}{/call}{call .row data=\"all\"}{param i: 7 /}{/call}\n{/template}\n" +
				"/**\n * @param i\n * @param? m\n * @param? l\n */\n{template .row}\n[{$i}:{$m ?: 'nm'}:{$l ? length($l) : 0}]\n{/template}\n" +
				// data references that fail in different ways with the four data sets (missing root, access on a string, access on a list)
				"/**\n * @param? b\n * @param? l\n */\n{template .refs}\n{let $t}[{$b?.label}]{if $l}{$l[0][0].deep.er}{/if}{/let}{$t}{call .row}{param i}<{$b?.label}>{/param}{/call}[{$b.label.deep.er}]\n{/template}\n",
		},
	}
}

func checkC08(c *Ctx) {
	type cfg struct {
		name  string
		apply func() func()
	}
	bang := soyhtml.PrintDirective{Apply: func(v data.Value, _ []data.Value) data.Value { return data.String(v.String() + "!") }, ValidArgLengths: []int{0}}
	hash := soyhtml.PrintDirective{Apply: func(v data.Value, _ []data.Value) data.Value { return data.String("#" + v.String()) }, ValidArgLengths: []int{0}, CancelAutoescape: true}
	withDirs := func(names ...string) func() func() {
		return func() func() {
			soyhtml.PrintDirectives["bang"] = bang
			soyhtml.PrintDirectives["hash"] = hash
			soyjs.PrintDirectives["bang"] = soyjs.PrintDirective{Name: "bang"}
			soyjs.PrintDirectives["hash"] = soyjs.PrintDirective{Name: "hash", CancelAutoescape: true}
			soyhtml.Funcs["ident"] = soyhtml.Func{Apply: func(a []data.Value) data.Value { return a[0] }, ValidArgLengths: []int{1}}
			old := soyhtml.ObligatoryPrintDirectiveNames
			soyhtml.ObligatoryPrintDirectiveNames = names
			return func() {
				soyhtml.ObligatoryPrintDirectiveNames = old
				delete(soyhtml.PrintDirectives, "bang")
				delete(soyhtml.PrintDirectives, "hash")
				delete(soyjs.PrintDirectives, "bang")
				delete(soyjs.PrintDirectives, "hash")
				delete(soyhtml.Funcs, "ident")
			}
		}
	}
	configs := []cfg{
		{"default registries", func() func() { return func() {} }},
		{"custom function and directives installed, no obligatory directive", withDirs()},
		{"one obligatory directive", withDirs("bang")},
		{"two obligatory directives", withDirs("bang", "hash")},
	}
	maxLen := 3
	bundles := c08Bundles()
	for _, bname := range []string{"core", "loops", "msgs", "funcs"} {
		files := bundles[bname]
		for _, cf := range configs {
			bname, files, cf := bname, files, cf
			var build func() (*c08world, error)
			build0 := func() (*c08world, error) {
				b := soy.NewBundle().AddGlobalsMap(data.Map{"G_ONE": data.Int(1)})
				for i, f := range files {
					b = b.AddTemplateString(fmt.Sprintf("f%d.soy", i), f)
				}
				reg, err := b.Compile()
				if err != nil {
					return nil, err
				}
				w := &c08world{reg: reg, tofu: soyhtml.NewTofu(reg), ij: data.Map{"k": data.String("ij")}}
				w.datas = []data.Map{
					{"a": data.String("x<y"), "b": data.String("<b>bold</b>"), "l": data.List{data.Int(1), data.Int(2)}, "m": data.Map{"label": data.String("from-m"), "q": data.Int(1)}},
					{"a": data.String("longer text"), "l": data.List{data.List{data.Int(1)}, data.List{}}, "b": data.Map{"label": data.String("from-b")}},
					{"x": data.Int(1)},
					{},
				}
				w.bundle = identityBundleFor(reg)
				return w, nil
			}
			build = func() (w *c08world, err error) {
				vrt.Run(vrt.Options{Fuel: 50000000}, func() { w, err = build0() })
				return
			}
			// operations
			var ops []c08op
			first, _ := build()
			if first == nil {
				c.Violate("fixture compiles", "mismatch", "fixture:"+bname, c08case{Bundle: bname}, "compiles", "compile error")
				continue
			}
			var tnames []string
			for _, t := range first.reg.Templates {
				tnames = append(tnames, t.Node.Name)
			}
			for _, tn := range tnames {
				for di := range first.datas {
					tn, di := tn, di
					ops = append(ops, c08op{fmt.Sprintf("render %s data#%d", tn, di), func(w *c08world) string {
						var buf bytes.Buffer
						err := w.tofu.NewRenderer(tn).Inject(w.ij).Execute(&buf, w.datas[di])
						return buf.String() + errClass(err)
					}})
				}
				tn := tn
				ops = append(ops, c08op{"render+msgs " + tn + " data#0", func(w *c08world) string {
					var buf bytes.Buffer
					err := w.tofu.NewRenderer(tn).Inject(w.ij).WithMessages(w.bundle).Execute(&buf, w.datas[0])
					return buf.String() + errClass(err)
				}})
			}
			for fi := range files {
				fi := fi
				ops = append(ops, c08op{fmt.Sprintf("js es5 file#%d", fi), func(w *c08world) string {
					var buf bytes.Buffer
					err := soyjs.Write(&buf, w.reg.SoyFiles[fi], soyjs.Options{})
					return buf.String() + errClass(err)
				}})
				ops = append(ops, c08op{fmt.Sprintf("js es6+msgs file#%d", fi), func(w *c08world) string {
					var buf bytes.Buffer
					err := soyjs.Write(&buf, w.reg.SoyFiles[fi], soyjs.Options{Formatter: soyjs.ES6Formatter{}, Messages: w.bundle})
					return buf.String() + errClass(err)
				}})
			}
			ops = append(ops, c08op{"EvalExpr 1 + 2", func(w *c08world) string {
				n, err := parse.Expr("[1 + 2, 'a' + 1]")
				if err != nil {
					return "parse error"
				}
				v, err := soyhtml.EvalExpr(n)
				if err != nil {
					return "eval error"
				}
				return v.String()
			}})

			restore := cf.apply()
			// per-operation reference behaviour from the initial state
			ref := make([]string, len(ops))
			var d0 uint64
			stateRoots := func(w *c08world) []any {
				roots := []any{w.reg, &w.datas, &w.ij, w.bundle}
				return append(roots, packageState()...)
			}
			bad := false
			for i, op := range ops {
				w, err := build()
				if err != nil {
					bad = true
					break
				}
				if i == 0 {
					d0 = deepDigest(stateRoots(w)...)
				}
				vrt.Run(vrt.Options{Fuel: 20000000}, func() { ref[i] = op.run(w) })
			}
			if bad {
				restore()
				continue
			}
			states := map[uint64]bool{d0: true}
			// all histories of length <= maxLen
			var hist []int
			var rec func()
			rec = func() {
				if len(hist) > 0 && c.Mine() {
					w, _ := build()
					var names []string
					before := d0
					for step, oi := range hist {
						names = append(names, ops[oi].name)
						var out string
						v := vrt.Run(vrt.Options{Fuel: 20000000}, func() { out = ops[oi].run(w) })
						after := deepDigest(stateRoots(w)...)
						states[after] = true
						c.Count("operations", 1)
						cs := c08case{Bundle: bname, Config: cf.name, History: append([]string{}, names...)}
						switch {
						case v.Panic != nil || v.Exhausted:
							c.Violate("operation returns", "panic", "panic:"+ops[oi].name, cs, "returns", fmt.Sprint(v.Panic, v.Exhausted))
						case after != before:
							c.Violate("an operation changes neither caller data nor the compiled bundle nor the registries", "mismatch",
								"state-changed:"+opClass(ops[oi].name)+":"+cf.name, cs, "deep digest of registry, data, injected data, message bundle and package registries unchanged",
								"digest changed by "+ops[oi].name+": "+digestDiff(w, stateRoots, build))
						case out != ref[oi]:
							prev := "nothing"
							if step > 0 {
								prev = names[step-1]
							}
							c.Violate("the same operation yields byte-identical output whatever ran before it", "mismatch",
								"output-differs:"+opClass(ops[oi].name)+" after "+opClass(prev)+":"+cf.name, cs, fmt.Sprintf("%q", ref[oi]), fmt.Sprintf("%q", out))
						}
						before = after
					}
					c.Observe(bname+cf.name+strings.Join(names, ">"), fmt.Sprint(len(states)))
					c.Nontrivial()
					if c.Index()%1777 == 0 {
						c.Sample(map[string]any{"bundle": bname, "config": cf.name, "history": names})
					}
				}
				if len(hist) == maxLen {
					return
				}
				for oi := range ops {
					hist = append(hist, oi)
					rec()
					hist = hist[:len(hist)-1]
				}
			}
			rec()
			c.Max("ops_per_bundle", int64(len(ops)))
			c.Max("distinct_state_digests_in_one_bundle_config", int64(len(states)))
			restore()
		}
	}
}

func errClass(err error) string {
	if err == nil {
		return ""
	}
	return "\x00ERR:" + firstLineOf(err.Error())
}

func opClass(name string) string {
	f := strings.Fields(name)
	if len(f) >= 2 {
		return f[0] + " " + f[1]
	}
	return name
}

// digestDiff names the first root whose digest differs from a fresh instance.
func digestDiff(w *c08world, roots func(*c08world) []any, build func() (*c08world, error)) string {
	fresh, err := build()
	if err != nil {
		return "?"
	}
	a, b := roots(w), roots(fresh)
	labels := []string{"compiled registry", "caller data", "injected data", "message bundle"}
	for i := range a {
		if s, ok := a[i].(string); ok {
			labels = append(labels, s, s)
			continue
		}
		if deepString(a[i]) != deepString(b[i]) {
			l := fmt.Sprintf("root %d", i)
			if i < len(labels) {
				l = labels[i]
			}
			x, y := deepString(a[i]), deepString(b[i])
			k := 0
			for k < len(x) && k < len(y) && x[k] == y[k] {
				k++
			}
			lo := k - 80
			if lo < 0 {
				lo = 0
			}
			hi := k + 80
			if hi > len(x) {
				hi = len(x)
			}
			return l + " differs near …" + x[lo:hi] + "…"
		}
	}
	return "(no single root differs)"
}
