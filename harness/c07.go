package main

import (
	"bytes"
	"fmt"
	"sort"
	"strings"

	"github.com/robfig/soy"
	"github.com/robfig/soy/data"
	"verif/vrt"
)

func init() { register("C07", checkC07) }

type c07case struct {
	Files map[string]string `json:"files"`
	Rules []string          `json:"violated_rules"`
	Mut   string            `json:"mutation"`
}

// cloneCmds deep-copies a command list (expressions are shared: they are never mutated in place).
func cloneCmds(cs []*Cmd) []*Cmd {
	var out []*Cmd
	for _, c := range cs {
		n := *c
		n.Body = cloneCmds(c.Body)
		n.Else = cloneCmds(c.Else)
		if c.Else != nil && n.Else == nil {
			n.Else = []*Cmd{}
		}
		n.Conds = nil
		for _, b := range c.Conds {
			n.Conds = append(n.Conds, Branch{E: b.E, Vals: b.Vals, Body: cloneCmds(b.Body)})
		}
		if c.Call != nil {
			cs := *c.Call
			cs.Params = nil
			for _, p := range c.Call.Params {
				cs.Params = append(cs.Params, CallParam{Key: p.Key, Value: p.Value, Content: cloneCmds(p.Content), Attr: p.Attr})
			}
			n.Call = &cs
		}
		out = append(out, &n)
	}
	return out
}

// sites visits every command (pre-order) with a pointer to the slice holding it.
func walkCmds(cs *[]*Cmd, f func(list *[]*Cmd, i int)) {
	for i := 0; i < len(*cs); i++ {
		f(cs, i)
		if i >= len(*cs) {
			break
		}
		c := (*cs)[i]
		for b := range c.Conds {
			walkCmds(&c.Conds[b].Body, f)
		}
		walkCmds(&c.Body, f)
		walkCmds(&c.Else, f)
		if c.Call != nil {
			for p := range c.Call.Params {
				walkCmds(&c.Call.Params[p].Content, f)
			}
		}
	}
}

func checkC07(c *Ctx) {
	lib := libFiles()
	all := map[string]data.Value{"x": data.Int(2), "y": data.Int(4), "c": data.Bool(true), "l": data.List{data.Int(3)}, "m": data.Map{"x": data.String("mx")}, "extra": data.Int(1), "n": data.Int(1)}

	dupFirst := false
	dupLib := 0
	// stricter second definitions of every library template (one more required param, used in the body)
	strictLib := func() *File {
		f := &File{Name: "strict.soy", NS: "lib.deep"}
		for _, t := range lib[0].Tmpls {
			t2 := *t
			t2.Params = append(append([]Param{}, t.Params...), Param{"zz", false})
			t2.Body = append(append([]*Cmd{}, t.Body...), pr(vr("zz")))
			f.Tmpls = append(f.Tmpls, &t2)
		}
		return f
	}
	one := func(body []*Cmd, params []Param, variant int, mut string, both int) {
		if !c.Mine() {
			return
		}
		if hasMsgViolation(body) {
			return
		}
		t := &Tmpl{NS: "app.main", Name: "entry", Params: params, Body: body, Header: variant&1 == 1, BothDecl: both}
		// a first template that declares and uses every name: the checker reaches the entry
		// template from a non-initial state (whatever it remembers must not leak forward).
		warm := &Tmpl{NS: "app.main", Name: "warm", Params: []Param{{"x", true}, {"y", true}, {"c", true}, {"l", true}, {"m", true}, {"extra", true}, {"zz", true}}, Body: []*Cmd{
			pr(bin("?:", vr("x"), S(""))), pr(bin("?:", vr("y"), S(""))), pr(bin("?:", vr("c"), S(""))), pr(bin("?:", vr("l"), S(""))), pr(bin("?:", vr("m"), S(""))),
			pr(bin("?:", vr("extra"), S(""))), pr(bin("?:", vr("zz"), S(""))), {K: "let", Var: "w", E: I(1)}, pr(vr("w")), {K: "foreach", Var: "x", E: &E{K: "list"}, Body: []*Cmd{pr(vr("x"))}},
		}}
		main := &File{Name: "main.soy", NS: "app.main", Aliases: []string{"lib.deep"}, Tmpls: []*Tmpl{warm, t}}
		files := withLib(main, lib)
		if dupFirst {
			// an earlier file already defines app.main.entry (rule-abiding, trivial): lookups resolve to that
			// first definition, and the rules still hold for every definition in the bundle.
			first := &File{Name: "first.soy", NS: "app.main", Tmpls: []*Tmpl{{NS: "app.main", Name: "entry", Body: []*Cmd{txt("first definition")}}}}
			files = append([]*File{first}, files...)
		}
		switch dupLib {
		case 1:
			// a later file defines the library templates again, with one more required param: calls
			// resolve to the first definitions, so every decision stays what it was
			files = append(files, strictLib())
		case 2:
			// ... and the same file first: now the strict definitions are the ones that are called
			files = append([]*File{strictLib()}, files...)
		}
		rules := checkRules(files)
		if rules["ambiguous-param-use"] {
			c.Count("ambiguous_skipped", 1)
			return
		}
		wantAccept := len(rules) == 0
		// render accepted programs with ALL declared params supplied.
		d := data.Map{}
		for _, p := range params {
			if v, ok := all[p.Name]; ok {
				d[p.Name] = v
			}
		}
		var compileErr, recompileErr string
		var unbound []string
		v := vrt.Run(vrt.Options{Fuel: 2000000}, func() {
			b := soy.NewBundle()
			for _, f := range files {
				b = b.AddTemplateString(f.Name, f.src())
			}
			tofu, err := b.CompileToTofu()
			if err != nil {
				compileErr = err.Error()
				return
			}
			var buf bytes.Buffer
			tofu.NewRenderer("app.main.entry").Inject(exprIJ).Execute(&buf, d)
			if mut == "none" {
				// the same Bundle value compiled once more (for Tofu, then for the JavaScript generator): same decision
				if _, err2 := b.Compile(); err2 != nil {
					recompileErr = err2.Error()
				}
			}
		})
		for _, e := range v.Events {
			if strings.HasPrefix(e, "unbound:") && !strings.Contains(e, "__") {
				unbound = append(unbound, e)
			}
		}
		cs := c07case{Files: map[string]string{"main.soy": main.src()}, Rules: rules.list(), Mut: mut}
		accepted := compileErr == ""
		obs := fmt.Sprintf("accept=%v", accepted)
		if v.Panic != nil {
			obs = "panic"
		}
		if v.Exhausted {
			obs = "hang"
		}
		if dupLib != 0 {
			c.Observe(fmt.Sprintf("duplicate library %d\x00", dupLib)+main.src(), obs)
			cs.Files["strict.soy (position "+map[int]string{1: "last", 2: "first"}[dupLib]+")"] = strictLib().src()
		} else if dupFirst {
			c.Observe("second definition\x00"+main.src(), obs)
			cs.Files["first.soy"] = files[0].src()
		} else {
			c.Observe(main.src(), obs)
		}
		c.Nontrivial()
		if wantAccept {
			c.Count("expected_accept", 1)
		} else {
			c.Count("expected_reject", 1)
			for r := range rules {
				c.Count("rule_"+r, 1)
			}
		}
		if c.Index()%15013 == 0 {
			c.Sample(map[string]any{"main.soy": main.src(), "violated_rules": rules.list(), "observed": obs, "compile_error": compileErr})
		}
		sig := skCmds(body)
		switch {
		case v.Exhausted:
			c.Violate("terminates", "hang", "hang:"+sig, cs, "returns", "fuel exhausted")
		case v.Panic != nil:
			c.Violate("no panic", "panic", "panic:"+sig, cs, "accept or reject", fmt.Sprint(v.Panic))
		case wantAccept && !accepted:
			c.Violate("compilation succeeds for every rule-abiding bundle", "mismatch", "false-reject:"+mut+":"+sig, cs, "accepted", compileErr)
		case wantAccept && accepted && recompileErr != "":
			c.Violate("compilation succeeds for every rule-abiding bundle", "mismatch", "false-reject-on-recompilation:"+sig, cs, "accepted again", recompileErr)
		case !wantAccept && accepted:
			c.Violate("compilation fails for every bundle violating a rule", "mismatch", "false-accept:"+strings.Join(rules.list(), ",")+":"+mut+":"+sig, cs, "rejected ("+strings.Join(rules.list(), ",")+")", "accepted")
		case wantAccept && c.Instr():
			// the only lookups that may miss are reads of a callee's declared param that the
			// call did not pass; the reference interpreter predicts exactly those.
			x := newRefExec(files, exprIJ)
			_, st := x.run("app.main.entry", d)
			if st == stOK {
				c.Count("probe_compared", 1)
				c.Count("probe_expected_misses", int64(len(x.misses)))
				sort.Strings(unbound)
				want := append([]string{}, x.misses...)
				sort.Strings(want)
				for i := range want {
					want[i] = "unbound:" + want[i]
				}
				if strings.Join(unbound, ",") != strings.Join(want, ",") {
					c.Violate("rendering an accepted template with all params supplied never looks up a name that nothing binds", "mismatch", "unbound-lookup:"+sig, cs,
						"lookups that miss: only unpassed callee params ["+strings.Join(want, ",")+"]", "["+strings.Join(unbound, ",")+"]")
				}
			}
		}
		if wantAccept && c.Instr() {
			c.Count("renders_probed", 1)
		}
	}

	paramsFor := func(body []*Cmd) []Param {
		names := map[string]bool{}
		usedNames(body, names)
		delete(names, "ij")
		var pn []string
		for n := range names {
			pn = append(pn, n)
		}
		sort.Strings(pn)
		var params []Param
		for _, n := range pn {
			params = append(params, Param{Name: n, Optional: n == "x"})
		}
		return params
	}

	defer func() {
		if c.Shard == 0 && !c.stopped && c.only < 0 && (c.res.Counters["expected_accept"] == 0 || c.res.Counters["expected_reject"] == 0) {
			panic("C07 is vacuous: no accepted or no rejected programs were generated")
		}
	}()
	seenBodies := 0
	enumBodies(c.Thorough(), func(body []*Cmd, variant int) {
		seenBodies++
		params := paramsFor(body)
		// (0) the body as generated: valid or naturally rule-violating (use after block end,
		//     use before let, loop variable outside its loop, shadowed params ...)
		one(body, params, variant, "none", 0)
		// mutations at every applicable site; applied to every 3rd body in the quick tier to bound the cost
		if !c.Thorough() && seenBodies%7 != 0 {
			return
		}
		// (0b) the same body as a second definition of a template name that an earlier file already defines
		dupFirst = true
		one(body, params, variant, "second-definition", 0)
		one(body, append(append([]Param{}, params...), Param{Name: "extra"}), variant, "second-definition+unused-param", 0)
		dupFirst = false
		// (0c) every library template defined twice with different param lists, in both file orders
		dupLib = 1
		one(body, params, variant, "later-duplicate-callees", 0)
		dupLib = 2
		one(body, params, variant, "earlier-duplicate-callees", 0)
		dupLib = 0
		// (1) unused param
		one(body, append(append([]Param{}, params...), Param{Name: "extra"}), variant, "add-unused-param", 0)
		// (2) both soydoc and header params
		if len(params) > 0 {
			one(body, params, variant, "both-decls", 1)
		}
		if len(params) > 1 {
			// distinct names in the two mechanisms
			one(body, params, variant, "both-decls-split-first", 2)
			one(body, params, variant, "both-decls-split-last", 3)
		}
		// (3) drop each param declaration in turn (references become undeclared, or were shadowed anyway)
		for i := range params {
			p2 := append(append([]Param{}, params[:i]...), params[i+1:]...)
			one(body, p2, variant, "drop-param-"+params[i].Name, 0)
		}
		// site mutations
		nsites := 0
		tmp := cloneCmds(body)
		walkCmds(&tmp, func(list *[]*Cmd, i int) { nsites++ })
		for site := 0; site < nsites; site++ {
			for _, kind := range []string{"rename-ref", "unused-let", "let-ij", "undeclared-call-param", "unknown-callee", "missing-required", "missing-required-after-optional", "missing-required-with-default", "complete-call-with-default", "drop-one-call-param", "delete"} {
				b2 := cloneCmds(body)
				idx := 0
				applied := false
				walkCmds(&b2, func(list *[]*Cmd, i int) {
					if idx != site {
						idx++
						return
					}
					idx++
					cm := (*list)[i]
					switch kind {
					case "rename-ref":
						if cm.K == "print" && cm.E.K == "var" {
							cm.E = vr("zz")
							applied = true
						}
					case "unused-let":
						*list = append((*list)[:i+1], append([]*Cmd{{K: "let", Var: "w", E: I(1)}}, (*list)[i+1:]...)...)
						applied = true
					case "let-ij":
						if cm.K == "let" {
							cm.Var = "ij"
							applied = true
						}
					case "undeclared-call-param":
						if cm.K == "call" {
							cm.Call.Params = append(cm.Call.Params, CallParam{Key: "nope", Value: I(1)})
							applied = true
						}
					case "unknown-callee":
						if cm.K == "call" {
							cm.Call.Name, cm.Call.Target = "deep.missing", "lib.deep.missing"
							applied = true
						}
					case "missing-required":
						if cm.K == "call" && len(cm.Call.Params) <= 1 {
							cm.Call.Name, cm.Call.Target = "deep.rec", "lib.deep.rec"
							cm.Call.Params = nil
							applied = true
						}
					case "missing-required-after-optional":
						if cm.K == "call" && len(cm.Call.Params) <= 1 {
							cm.Call.Name, cm.Call.Target = "deep.mixed", "lib.deep.mixed"
							cm.Call.AllData, cm.Call.Data = false, nil
							cm.Call.Params = []CallParam{{Key: "o", Value: I(1)}, {Key: "r", Value: I(2)}}
							applied = true
						}
					case "missing-required-with-default":
						// the callee declares {@param r: ? = 3}: a default in the declaration does not make it optional
						if cm.K == "call" && len(cm.Call.Params) <= 1 {
							cm.Call.Name, cm.Call.Target = "deep.hdrdef", "lib.deep.hdrdef"
							cm.Call.AllData, cm.Call.Data = false, nil
							cm.Call.Params = []CallParam{{Key: "o", Value: I(1)}}
							applied = true
						}
					case "complete-call-with-default":
						if cm.K == "call" && len(cm.Call.Params) <= 1 {
							cm.Call.Name, cm.Call.Target = "deep.hdrdef", "lib.deep.hdrdef"
							cm.Call.AllData, cm.Call.Data = false, nil
							cm.Call.Params = []CallParam{{Key: "r", Value: I(2)}}
							applied = true
						}
					case "drop-one-call-param":
						if cm.K == "call" && len(cm.Call.Params) > 0 {
							cm.Call.Params = cm.Call.Params[1:]
							applied = true
						}
					case "delete":
						*list = append((*list)[:i], (*list)[i+1:]...)
						applied = true
					}
				})
				if applied {
					one(b2, params, variant, fmt.Sprintf("%s@%d", kind, site), 0)
				}
			}
		}
	})
}
