package main

// Reference port of the official Soy message-id and placeholder-naming
// algorithm (closure-templates: SoyMsgIdComputer, MsgNode.genSubstUnitInfo,
// BaseUtils.convertToUpperUnderscore), written from the algorithm's
// description.  Validated at start-up against the ids the repository's tests
// pin from the Java implementation's examples_extracted.xlf.

import (
	"fmt"
	"strconv"
	"strings"
)

// MPart is a generator-side message part.
type MPart struct {
	Kind    string // text | html | print | call | plural
	Text    string // text / html tag source / call source
	E       *E     // print expression / plural value
	Dirs    string // print directives
	Src     string // text only: the source spelling when it differs from the text ({lb}, {rb} for braces)
	Cases   []MCase
	Default []MPart
}

type MCase struct {
	N    int
	Body []MPart
}

func (p MPart) src() string {
	switch p.Kind {
	case "text", "html", "call":
		if p.Src != "" {
			return p.Src
		}
		return p.Text
	case "print":
		return "{" + p.E.String() + p.Dirs + "}"
	case "plural":
		s := "{plural " + p.E.String() + "}"
		for _, c := range p.Cases {
			s += "{case " + strconv.Itoa(c.N) + "}" + srcParts(c.Body)
		}
		return s + "{default}" + srcParts(p.Default) + "{/plural}"
	}
	panic("bad mpart")
}

func srcParts(ps []MPart) string {
	var b strings.Builder
	for _, p := range ps {
		b.WriteString(p.src())
	}
	return b.String()
}

// ---- Jenkins lookup2 based 64-bit fingerprint --------------------------------

func mix(a, b, c uint32) (uint32, uint32, uint32) {
	a -= b
	a -= c
	a ^= c >> 13
	b -= c
	b -= a
	b ^= a << 8
	c -= a
	c -= b
	c ^= b >> 13
	a -= b
	a -= c
	a ^= c >> 12
	b -= c
	b -= a
	b ^= a << 16
	c -= a
	c -= b
	c ^= b >> 5
	a -= b
	a -= c
	a ^= c >> 3
	b -= c
	b -= a
	b ^= a << 10
	c -= a
	c -= b
	c ^= b >> 15
	return a, b, c
}

func le32(s []byte) uint32 {
	return uint32(s[0]) | uint32(s[1])<<8 | uint32(s[2])<<16 | uint32(s[3])<<24
}

func refHash32(s []byte, c uint32) uint32 {
	a, b := uint32(0x9e3779b9), uint32(0x9e3779b9)
	n := len(s)
	for len(s) >= 12 {
		a += le32(s[0:])
		b += le32(s[4:])
		c += le32(s[8:])
		a, b, c = mix(a, b, c)
		s = s[12:]
	}
	c += uint32(n)
	// the remaining 0..11 bytes: bytes 0-3 into a, 4-7 into b, 8-10 into the upper three bytes of c
	for i, ch := range s {
		switch {
		case i < 4:
			a += uint32(ch) << (8 * uint(i))
		case i < 8:
			b += uint32(ch) << (8 * uint(i-4))
		default:
			c += uint32(ch) << (8 * uint(i-8+1))
		}
	}
	_, _, c = mix(a, b, c)
	return c
}

func refFingerprint(s []byte) uint64 {
	hi := refHash32(s, 0)
	lo := refHash32(s, 102072)
	if hi == 0 && (lo == 0 || lo == 1) {
		hi ^= 0x130f9bef
		lo ^= 0x94a0a928
	}
	return uint64(hi)<<32 | uint64(lo)
}

func refMsgID(content, meaning string) uint64 {
	fp := refFingerprint([]byte(content))
	if meaning != "" {
		var top uint64
		if fp&(1<<63) != 0 {
			top = 1
		}
		fp = (fp << 1) + top + refFingerprint([]byte(meaning))
	}
	return fp & 0x7fffffffffffffff
}

// ---- identifier conversion ----------------------------------------------------

func isLetter(c byte) bool { return c >= 'a' && c <= 'z' || c >= 'A' && c <= 'Z' }
func isUpper(c byte) bool  { return c >= 'A' && c <= 'Z' }
func isLower(c byte) bool  { return c >= 'a' && c <= 'z' }
func isDig(c byte) bool    { return c >= '0' && c <= '9' }

// refUpperUnderscore: strip leading/trailing underscores, insert "_" at every
// word boundary (letter|Upper+lower, letter|digit, digit|letter; zero-width, so
// boundaries may be adjacent), collapse underscore runs, upper-case.
func refUpperUnderscore(id string) string {
	id = strings.Trim(id, "_")
	var b strings.Builder
	for i := 0; i < len(id); i++ {
		if i > 0 {
			p, c := id[i-1], id[i]
			switch {
			case isLetter(p) && isUpper(c) && i+1 < len(id) && isLower(id[i+1]):
				b.WriteByte('_')
			case isLetter(p) && isDig(c):
				b.WriteByte('_')
			case isDig(p) && isLetter(c):
				b.WriteByte('_')
			}
		}
		b.WriteByte(id[i])
	}
	s := b.String()
	for strings.Contains(s, "__") {
		s = strings.ReplaceAll(s, "__", "_")
	}
	return strings.ToUpper(s)
}

var refHTMLNames = map[string]string{"a": "link", "br": "break", "b": "bold", "i": "italic", "li": "item", "ol": "ordered_list", "ul": "unordered_list", "p": "paragraph", "img": "image", "em": "emphasis"}

func refHTMLBase(tag string) string {
	kind := "START_"
	if strings.HasPrefix(tag, "</") {
		kind = "END_"
	} else if strings.HasSuffix(tag, "/>") {
		kind = ""
	}
	t := strings.TrimPrefix(strings.TrimPrefix(tag, "<"), "/")
	i := 0
	for i < len(t) && (isLetter(t[i]) || isDig(t[i])) {
		i++
	}
	name := strings.ToLower(t[:i])
	if p, ok := refHTMLNames[name]; ok {
		name = p
	}
	return refUpperUnderscore(kind + name)
}

func refExprBase(e *E, dflt string) string {
	switch e.K {
	case "global":
		n := e.Op
		if i := strings.LastIndexByte(n, '.'); i >= 0 {
			n = n[i+1:]
		}
		return refUpperUnderscore(n)
	case "var":
		if len(e.Acc) == 0 {
			return refUpperUnderscore(e.Op)
		}
		last := e.Acc[len(e.Acc)-1]
		if last.Kind == "dot" || last.Kind == "qdot" {
			return refUpperUnderscore(last.Key)
		}
	}
	return dflt
}

// refUnit is one substitution unit (placeholder or plural variable) in BFS order.
type refUnit struct {
	part *MPart
	base string
	same string // sameness key ("" = never the same as another unit)
	name string
}

// refNames assigns the official names to every substitution unit of the message.
func refNames(parts []MPart) []*refUnit {
	var units []*refUnit
	queue := [][]MPart{parts}
	for len(queue) > 0 {
		ps := queue[0]
		queue = queue[1:]
		for i := range ps {
			p := &ps[i]
			switch p.Kind {
			case "print":
				units = append(units, &refUnit{part: p, base: refExprBase(p.E, "XXX"), same: "print:" + p.E.String() + p.Dirs})
			case "html":
				units = append(units, &refUnit{part: p, base: refHTMLBase(p.Text), same: "html:" + p.Text})
			case "call":
				units = append(units, &refUnit{part: p, base: "XXX"})
			case "plural":
				units = append(units, &refUnit{part: p, base: refExprBase(p.E, "NUM"), same: "plural:" + p.src()})
				for _, c := range p.Cases {
					queue = append(queue, c.Body)
				}
				queue = append(queue, p.Default)
			}
		}
	}
	// representatives per base name, in first-seen order
	var bases []string
	reps := map[string][]*refUnit{}
	repOf := map[*refUnit]*refUnit{}
	for _, u := range units {
		if _, ok := reps[u.base]; !ok {
			bases = append(bases, u.base)
		}
		found := false
		if u.same != "" {
			for _, r := range reps[u.base] {
				if r.same == u.same {
					repOf[u] = r
					found = true
					break
				}
			}
		}
		if !found {
			reps[u.base] = append(reps[u.base], u)
		}
	}
	for _, b := range bases {
		rs := reps[b]
		if len(rs) == 1 {
			rs[0].name = b
			continue
		}
		next := 1
		for _, r := range rs {
			for {
				n := b + "_" + strconv.Itoa(next)
				next++
				if _, clash := reps[n]; !clash {
					r.name = n
					break
				}
			}
		}
	}
	for u, r := range repOf {
		u.name = r.name
	}
	return units
}

// refContent builds the string that is fingerprinted (braces=false) or the
// placeholder string shown to translators (braces=true).
func refContent(parts []MPart, names map[*MPart]string, braces bool) string {
	var b strings.Builder
	for i := range parts {
		p := &parts[i]
		switch p.Kind {
		case "text":
			b.WriteString(p.Text)
		case "print", "html", "call":
			if braces {
				b.WriteString("{" + names[p] + "}")
			} else {
				b.WriteString(names[p])
			}
		case "plural":
			b.WriteString("{" + names[p] + ",plural,")
			for _, c := range p.Cases {
				b.WriteString("=" + strconv.Itoa(c.N) + "{" + refContent(c.Body, names, true) + "}")
			}
			b.WriteString("other{" + refContent(p.Default, names, true) + "}}")
		}
	}
	return b.String()
}

// refMessage returns the official id, placeholder string and unit names (document order).
func refMessage(parts []MPart, meaning string) (id uint64, phstr string, names []string) {
	units := refNames(parts)
	nm := map[*MPart]string{}
	for _, u := range units {
		nm[u.part] = u.name
	}
	var walk func(ps []MPart)
	walk = func(ps []MPart) {
		for i := range ps {
			p := &ps[i]
			if p.Kind != "text" {
				names = append(names, nm[p])
			}
			if p.Kind == "plural" {
				for _, c := range p.Cases {
					walk(c.Body)
				}
				walk(p.Default)
			}
		}
	}
	walk(parts)
	return refMsgID(refContent(parts, nm, false), meaning), refContent(parts, nm, true), names
}

// refSelfTest checks the port against ids produced by the Java implementation
// (pinned in soymsg/soymsg_test.go).
func refSelfTest() error {
	tx := func(s string) MPart { return MPart{Kind: "text", Text: s} }
	ph := func(e *E) MPart { return MPart{Kind: "print", E: e} }
	tests := []struct {
		parts   []MPart
		meaning string
		id      uint64
		phstr   string
	}{
		{[]MPart{tx("Archive")}, "noun", 7224011416745566687, "Archive"},
		{[]MPart{tx("Archive")}, "verb", 4826315192146469447, "Archive"},
		{[]MPart{tx("A trip was taken.")}, "", 3329840836245051515, "A trip was taken."},
		{[]MPart{tx("Your favorite keyword")}, "", 2209690285855487595, "Your favorite keyword"},
		{[]MPart{tx("Help")}, "", 7911416166208830577, "Help"},
		{[]MPart{ph(vr("name")), tx(" took a trip to "), ph(vr("destination")), tx(".")}, "", 768490705511913603, "{NAME} took a trip to {DESTINATION}."},
		{[]MPart{ph(vr("name")), tx(" took a trip.")}, "", 3179387603303514412, "{NAME} took a trip."},
		{[]MPart{{Kind: "plural", E: vr("eggs"), Cases: []MCase{{1, []MPart{tx("You have one egg")}}}, Default: []MPart{tx("You have "), ph(vr("eggs")), tx(" eggs")}}}, "", 176798647517908084,
			"{EGGS_1,plural,=1{You have one egg}other{You have {EGGS_2} eggs}}"},
	}
	for _, t := range tests {
		id, ps, _ := refMessage(t.parts, t.meaning)
		if id != t.id || ps != t.phstr {
			return fmt.Errorf("reference message-id port disagrees with the Java implementation on %q: id %d (want %d), placeholder string %q (want %q)", t.phstr, id, t.id, ps, t.phstr)
		}
	}
	if got := refUpperUnderscore("userIdToken"); got != "USER_ID_TOKEN" {
		return fmt.Errorf("refUpperUnderscore(userIdToken) = %s", got)
	}
	return nil
}
