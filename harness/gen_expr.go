package main

import (
	"fmt"
	"sort"
	"strings"

	"github.com/robfig/soy/data"
)

// The fixed data environment of the expression checks.  Every variable is a
// template parameter; "und" is an optional parameter that is never supplied.
var exprEnvVars = data.Map{
	"n":  data.Null{},
	"t":  data.Bool(true),
	"f":  data.Bool(false),
	"z":  data.Int(0),
	"i":  data.Int(3),
	"m":  data.Int(-2),
	"b":  data.Int(9007199254740991),
	"h":  data.Float(0.5),
	"d":  data.Float(2.0),
	"q":  data.Float(-1.25),
	"e":  data.String(""),
	"s":  data.String("a"),
	"s7": data.String("7"),
	"x":  data.String(`x<&"'>`),
	"u":  data.String("é"),
	"l0": data.List{},
	"l":  data.List{data.Int(1), data.String("b")},
	"ll": data.List{data.List{data.Int(5)}, data.Map{"k": data.String("w")}},
	"m0": data.Map{},
	"mp": data.Map{"k": data.String("v"), "n": data.Null{}, "l": data.List{data.Int(1)}, "m": data.Map{"j": data.Int(4)}, "i": data.Int(0)},
}

var exprIJ = data.Map{"x": data.String("inj"), "k": data.Int(8), "m": data.Map{"y": data.Bool(true)}}

func exprEnv() *Env { return &Env{Vars: exprEnvVars, IJ: exprIJ} }

// kindOf names the value class of a value.
func kindOf(v data.Value) string {
	switch v.(type) {
	case data.Undefined:
		return "undef"
	case data.Null:
		return "null"
	case data.Bool:
		return "bool"
	case data.Int:
		return "int"
	case data.Float:
		return "float"
	case data.String:
		return "str"
	case data.List:
		return "list"
	case data.Map:
		return "map"
	}
	return "?"
}

// sketch abstracts an expression to its shape and operand kinds (used in
// violation signatures: one signature per shape, not per value).
func sketch(e *E) string {
	switch e.K {
	case "lit":
		k := kindOf(e.Val)
		if strings.HasPrefix(e.Src, "-") {
			k = "neg" + k
		}
		if strings.HasPrefix(e.Src, "0x") {
			k = "hex"
		}
		if strings.ContainsAny(e.Src, "e") && k == "float" {
			k = "expfloat"
		}
		if strings.Contains(e.Src, `\`) {
			k = "escstr"
		}
		return k
	case "global":
		return "G" + kindOf(e.Val)
	case "var":
		s := "$"
		if e.Op == "ij" {
			s = "$ij"
		} else if v, ok := exprEnvVars[e.Op]; ok {
			s += kindOf(v)
		} else {
			s += "undef"
		}
		for _, a := range e.Acc {
			switch a.Kind {
			case "br", "qbr":
				s += map[string]string{"br": "[", "qbr": "?["}[a.Kind] + sketch(a.E) + "]"
			default:
				s += map[string]string{"dot": ".k", "qdot": "?.k", "idx": ".N", "qidx": "?.N"}[a.Kind]
			}
		}
		return s
	case "un":
		return e.Op + " " + psk(e.A[0])
	case "bin":
		return psk(e.A[0]) + " " + e.Op + " " + psk(e.A[1])
	case "tern":
		return psk(e.A[0]) + " ? " + psk(e.A[1]) + " : " + psk(e.A[2])
	case "call":
		var a []string
		for _, x := range e.A {
			a = append(a, sketch(x))
		}
		return e.Op + "(" + strings.Join(a, ",") + ")"
	case "list":
		var a []string
		for _, x := range e.A {
			a = append(a, sketch(x))
		}
		return "[" + strings.Join(a, ",") + "]"
	case "map":
		var a []string
		for _, x := range e.A {
			a = append(a, "k:"+sketch(x))
		}
		return "[" + strings.Join(a, ",") + ":]"
	}
	return "?"
}

func psk(e *E) string {
	if e.K == "bin" || e.K == "tern" || e.K == "un" {
		return "(" + sketch(e) + ")"
	}
	return sketch(e)
}

// atoms: one or two representatives per value class, as literals and as data references.
func exprAtoms() []*E {
	return []*E{
		lit("null", data.Null{}), lit("true", data.Bool(true)), lit("false", data.Bool(false)),
		lit("0", data.Int(0)), lit("1", data.Int(1)), lit("3", data.Int(3)), lit("-2", data.Int(-2)),
		lit("9007199254740991", data.Int(9007199254740991)),
		lit("0.5", data.Float(0.5)), lit("2.0", data.Float(2)), lit("-1.25", data.Float(-1.25)),
		lit("''", data.String("")), lit("'a'", data.String("a")), lit("'7'", data.String("7")),
		lit(`'x<&">'`, data.String(`x<&">`)), lit("'é'", data.String("é")),
		lit(`'\''`, data.String("'")), lit(`'\\'`, data.String(`\`)), lit(`'a\nb'`, data.String("a\nb")), lit(`'\u00e9'`, data.String("é")),
		lit(`'é\\'`, data.String("é\\")), lit(`'\'ü€😀\t'`, data.String("'ü€😀\t")), lit(`'\u00e9é\u20ac'`, data.String("éé€")),
		lit("0x1F", data.Int(31)), lit("1e3", data.Float(1000)), lit("1.5e-2", data.Float(0.015)),
		{K: "list"}, {K: "list", A: []*E{lit("1", data.Int(1)), lit("'b'", data.String("b"))}},
		{K: "map"}, {K: "map", Keys: []string{"k"}, A: []*E{lit("'v'", data.String("v"))}},
		vr("n"), vr("t"), vr("f"), vr("z"), vr("i"), vr("m"), vr("h"), vr("d"), vr("e"), vr("s"), vr("x"), vr("l"), vr("mp"), vr("l0"), vr("m0"),
		vr("und"), vr("ij", Acc{Kind: "dot", Key: "x"}), vr("mp", Acc{Kind: "dot", Key: "k"}), vr("l", Acc{Kind: "idx", Idx: 0}),
		glob("G_I", data.Int(7)), glob("g.s.S", data.String("gs")), glob("G_F", data.Float(1.5)), glob("G_B", data.Bool(false)), glob("G_N", data.Null{}),
	}
}

var binOps = []string{"*", "/", "%", "+", "-", "<", ">", "<=", ">=", "==", "!=", "and", "or", "?:"}

// operand triples for two-level nestings, chosen so that different groupings give different values.
func exprTriples() [][3]*E {
	I := func(n int64) *E { return lit(fmt.Sprint(n), data.Int(n)) }
	T, F := lit("true", data.Bool(true)), lit("false", data.Bool(false))
	return [][3]*E{
		{I(7), I(3), I(2)},
		{I(1), I(0), I(-2)},
		{lit("0.5", data.Float(0.5)), I(2), I(4)},
		{T, F, F},
		{F, T, T},
		{F, F, T},
		{vr("n"), I(0), I(5)},
		{vr("i"), vr("m"), vr("h")},
		{lit("'a'", data.String("a")), I(1), I(2)},
		{I(2), I(2), T},
		{vr("und"), vr("n"), I(1)},
	}
}

// exprS1: every binary operator x every ordered pair of atoms, every unary x atom.
func exprS1(emit func(stratum string, e *E)) {
	atoms := exprAtoms()
	for _, a := range atoms {
		emit("S1", a)
		emit("S1", un("-", a))
		emit("S1", un("not", a))
	}
	for _, op := range binOps {
		for _, a := range atoms {
			for _, b := range atoms {
				emit("S1", bin(op, a, b))
			}
		}
	}
	for _, c := range atoms {
		emit("S1", tern(c, lit("'y'", data.String("y")), lit("'n'", data.String("n"))))
	}
}

// exprS2: every pair of operators in every two-level shape.
func exprS2(emit func(stratum string, e *E), thorough bool) {
	for _, tr := range exprTriples() {
		a, b, c := tr[0], tr[1], tr[2]
		for _, o1 := range binOps {
			for _, o2 := range binOps {
				emit("S2", bin(o2, bin(o1, a, b), c))
				emit("S2", bin(o1, a, bin(o2, b, c)))
			}
			for _, u := range []string{"-", "not"} {
				emit("S2", un(u, bin(o1, a, b)))
				emit("S2", bin(o1, un(u, a), b))
				emit("S2", bin(o1, a, un(u, b)))
			}
			// ternary and elvis nested with each operator
			emit("S2", tern(bin(o1, a, b), b, c))
			emit("S2", tern(a, bin(o1, b, c), c))
			emit("S2", tern(a, b, bin(o1, b, c)))
			emit("S2", bin(o1, tern(a, b, c), c))
			emit("S2", bin(o1, a, tern(b, c, a)))
		}
		emit("S2", tern(a, tern(b, a, c), c))
		emit("S2", tern(a, b, tern(c, a, b)))
		emit("S2", tern(tern(a, b, c), a, b))
		emit("S2", un("-", un("-", a)))
		emit("S2", un("not", un("not", a)))
		emit("S2", un("not", un("-", a)))
		if thorough {
			for _, o1 := range binOps {
				for _, o2 := range binOps {
					for _, o3 := range binOps {
						emit("S2x", bin(o3, bin(o2, bin(o1, a, b), c), a))
						emit("S2x", bin(o1, a, bin(o2, b, bin(o3, c, a))))
						emit("S2x", bin(o2, bin(o1, a, b), bin(o3, c, a)))
					}
				}
			}
		}
	}
}

// exprS4: data-reference chains of up to maxLen accesses on every root kind.
func exprS4(emit func(stratum string, e *E), maxLen int) {
	roots := []string{"n", "und", "mp", "m0", "l", "l0", "ll", "s", "i"}
	accs := []Acc{
		{Kind: "dot", Key: "k"}, {Kind: "qdot", Key: "k"}, {Kind: "dot", Key: "zz"}, {Kind: "qdot", Key: "zz"},
		{Kind: "dot", Key: "l"}, {Kind: "dot", Key: "m"}, {Kind: "dot", Key: "n"},
		{Kind: "idx", Idx: 0}, {Kind: "qidx", Idx: 0}, {Kind: "idx", Idx: 7}, {Kind: "qidx", Idx: 7},
		{Kind: "br", E: lit("0", data.Int(0))}, {Kind: "qbr", E: lit("0", data.Int(0))},
		{Kind: "br", E: lit("'k'", data.String("k"))}, {Kind: "qbr", E: lit("'k'", data.String("k"))},
		{Kind: "br", E: vr("z")}, {Kind: "br", E: lit("9", data.Int(9))},
		{Kind: "br", E: bin("+", lit("0", data.Int(0)), lit("1", data.Int(1)))},
	}
	var rec func(root string, chain []Acc)
	rec = func(root string, chain []Acc) {
		e := vr(root, chain...)
		emit("S4", e)
		emit("S4", bin("?:", e, lit("'dflt'", data.String("dflt"))))
		if len(chain) == maxLen {
			return
		}
		for _, a := range accs {
			rec(root, append(append([]Acc{}, chain...), a))
		}
	}
	for _, r := range roots {
		rec(r, nil)
	}
	// $ij
	emit("S4", vr("ij", Acc{Kind: "dot", Key: "x"}))
	emit("S4", vr("ij", Acc{Kind: "dot", Key: "m"}, Acc{Kind: "dot", Key: "y"}))
	emit("S4", vr("ij", Acc{Kind: "qdot", Key: "zz"}, Acc{Kind: "dot", Key: "y"}))
	emit("S4", vr("ij", Acc{Kind: "br", E: lit("'k'", data.String("k"))}))
	emit("S4", vr("ij", Acc{Kind: "dot", Key: "zz"}))
}

// exprS5: every built-in function x argument classes in and around its typed domain.
func exprS5(emit func(stratum string, e *E)) {
	atoms := exprAtoms()
	nums := []*E{lit("0", data.Int(0)), lit("3", data.Int(3)), lit("-2", data.Int(-2)), lit("0.5", data.Float(0.5)), lit("2.0", data.Float(2)),
		lit("-1.25", data.Float(-1.25)), lit("2.5", data.Float(2.5)), lit("-2.5", data.Float(-2.5)), lit("1.75", data.Float(1.75)), lit("12345.678", data.Float(12345.678)), vr("i"), vr("h")}
	for _, f := range []string{"isNonnull", "length", "keys", "round", "floor", "ceiling"} {
		for _, a := range atoms {
			emit("S5", call(f, a))
		}
		for _, a := range nums {
			emit("S5", call(f, a))
		}
	}
	for _, f := range []string{"min", "max"} {
		for _, a := range nums {
			for _, b := range nums {
				emit("S5", call(f, a, b))
			}
		}
	}
	for _, a := range nums {
		for _, d := range []int64{0, 1, 2, -1} {
			emit("S5", call("round", a, lit(fmt.Sprint(d), data.Int(d))))
		}
	}
	strs := []*E{lit("''", data.String("")), lit("'a'", data.String("a")), lit("'abc'", data.String("abc")), lit("'b'", data.String("b")), vr("s"), vr("x"), vr("u")}
	for _, a := range strs {
		for _, b := range strs {
			emit("S5", call("strContains", a, b))
		}
	}
	maps := []*E{{K: "map"}, {K: "map", Keys: []string{"k"}, A: []*E{lit("1", data.Int(1))}}, {K: "map", Keys: []string{"j"}, A: []*E{lit("'v'", data.String("v"))}}, vr("mp"), vr("m0")}
	for _, a := range maps {
		for _, b := range maps {
			emit("S5", call("augmentMap", a, b))
			emit("S5", vr0(call("augmentMap", a, b)))
			// the keys of an augmented map are the keys of both maps (their number does not depend on order)
			emit("S5", call("length", call("keys", call("augmentMap", a, b))))
		}
		emit("S5", call("keys", a))
		emit("S5", call("length", call("keys", a)))
	}
	for _, a := range []int64{0, 1, 3, -1} {
		emit("S5", call("range", lit(fmt.Sprint(a), data.Int(a))))
		for _, b := range []int64{0, 2, 5} {
			emit("S5", call("range", lit(fmt.Sprint(a), data.Int(a)), lit(fmt.Sprint(b), data.Int(b))))
			for _, s := range []int64{1, 2, 3} {
				emit("S5", call("range", lit(fmt.Sprint(a), data.Int(a)), lit(fmt.Sprint(b), data.Int(b)), lit(fmt.Sprint(s), data.Int(s))))
			}
		}
	}
	emit("S5", call("length", call("range", lit("4", data.Int(4)))))
	emit("S5", call("hasData"))
	emit("S5", call("length", vr("l")))
	emit("S5", call("length", vr("mp", Acc{Kind: "dot", Key: "l"})))
	emit("S5", call("max", call("length", vr("l")), call("min", lit("1", data.Int(1)), lit("5", data.Int(5)))))
	// calls nested in every argument position, to depth 3
	i1, i3, i4, i5 := lit("1", data.Int(1)), lit("3", data.Int(3)), lit("4", data.Int(4)), lit("5", data.Int(5))
	emit("S5", call("max", i1, call("min", i5, i4)))
	emit("S5", call("min", vr("i"), call("max", vr("m"), i3)))
	emit("S5", call("round", lit("1.55", data.Float(1.55)), call("length", vr("l"))))
	emit("S5", call("max", call("min", i1, i3), call("max", i3, call("min", i4, i5))))
	emit("S5", call("min", call("max", i1, call("min", i5, i4)), call("length", call("keys", call("augmentMap", vr("mp"), vr("mp"))))))
	emit("S5", call("strContains", lit("'abc'", data.String("abc")), bin("+", lit("'b'", data.String("b")), call("min", i1, i3))))
}

// vr0 wraps an expression so that a map result is printed through a key lookup is not possible; print the map itself.
func vr0(e *E) *E { return e }

// usedVars returns the sorted variable names of an expression.
func usedVars(es ...*E) []string {
	set := map[string]bool{}
	for _, e := range es {
		e.vars(set)
	}
	delete(set, "ij")
	var out []string
	for k := range set {
		out = append(out, k)
	}
	sort.Strings(out)
	return out
}

// soydocFor declares the given variables as params ("und" is optional).
func soydocFor(vars []string) string {
	s := "/**\n"
	for _, v := range vars {
		if v == "und" {
			s += " * @param? " + v + "\n"
		} else {
			s += " * @param " + v + "\n"
		}
	}
	return s + " */\n"
}

// exprS6: every context that splices an argument (unary operators, every argument position of
// every function, bracket indices, ternary arms) x every low-precedence form of that argument
// (ternary, elvis, and/or, comparison, arithmetic, unary), with operands of the type the context needs.
func exprS6(emit func(stratum string, e *E)) {
	T, F := lit("true", data.Bool(true)), lit("false", data.Bool(false))
	pools := map[string][2]*E{
		"num":  {lit("7", data.Int(7)), lit("3", data.Int(3))},
		"flt":  {lit("1.55", data.Float(1.55)), lit("2.25", data.Float(2.25))},
		"str":  {lit("'abc'", data.String("abc")), lit("'b'", data.String("b"))},
		"list": {vr("l"), vr("l0")},
		"map":  {vr("mp"), vr("m0")},
		"bool": {T, F},
		"idx":  {lit("0", data.Int(0)), lit("1", data.Int(1))},
		"key":  {lit("'k'", data.String("k")), lit("'i'", data.String("i"))},
	}
	inner := func(typ string) []*E {
		a, b := pools[typ][0], pools[typ][1]
		out := []*E{a, tern(T, a, b), tern(F, a, b), tern(vr("z"), a, b), bin("?:", vr("n"), a), bin("?:", a, b), bin("?:", vr("und"), b)}
		// a compile-time global of the needed type in every argument position (globals are substituted
		// by a tree walk: every position must be reached)
		if a.K == "lit" {
			out = append(out, glob("G.pos."+typ, a.Val), bin("?:", glob("G.pos."+typ, a.Val), b))
		}
		switch typ {
		case "num", "flt", "idx":
			out = append(out, bin("+", a, b), bin("-", a, b), bin("*", a, b), un("-", a), bin("%", lit("7", data.Int(7)), lit("4", data.Int(4))))
		case "bool":
			out = append(out, bin("and", a, b), bin("or", b, a), bin("==", lit("1", data.Int(1)), lit("1", data.Int(1))), bin("<", lit("1", data.Int(1)), lit("2", data.Int(2))), un("not", b), bin("!=", a, b))
		case "str", "key":
			out = append(out, bin("+", a, b))
		}
		return out
	}
	type ctx struct {
		typ string
		mk  func(x *E) *E
	}
	ctxs := []ctx{
		{"num", func(x *E) *E { return un("-", x) }},
		{"bool", func(x *E) *E { return un("not", x) }},
		{"list", func(x *E) *E { return call("length", x) }},
		{"num", func(x *E) *E { return call("isNonnull", x) }},
		{"str", func(x *E) *E { return call("strContains", x, lit("'b'", data.String("b"))) }},
		{"str", func(x *E) *E { return call("strContains", lit("'abc'", data.String("abc")), x) }},
		{"flt", func(x *E) *E { return call("round", x, lit("1", data.Int(1))) }},
		{"idx", func(x *E) *E { return call("round", lit("1.55", data.Float(1.55)), x) }},
		{"flt", func(x *E) *E { return call("round", x) }},
		{"flt", func(x *E) *E { return call("floor", x) }},
		{"flt", func(x *E) *E { return call("ceiling", x) }},
		{"num", func(x *E) *E { return call("max", x, lit("5", data.Int(5))) }},
		{"num", func(x *E) *E { return call("min", lit("5", data.Int(5)), x) }},
		{"map", func(x *E) *E { return call("length", call("keys", x)) }},
		{"map", func(x *E) *E {
			return vr0(bin("?:", &E{K: "var", Op: "n"}, call("length", call("keys", call("augmentMap", x, &E{K: "map", Keys: []string{"z"}, A: []*E{lit("1", data.Int(1))}})))))
		}},
		{"idx", func(x *E) *E { return vr("l", Acc{Kind: "br", E: x}) }},
		{"key", func(x *E) *E { return vr("mp", Acc{Kind: "br", E: x}) }},
		{"bool", func(x *E) *E { return tern(x, lit("'y'", data.String("y")), lit("'n'", data.String("n"))) }},
		{"num", func(x *E) *E { return bin("*", x, lit("2", data.Int(2))) }},
		{"num", func(x *E) *E { return bin("-", lit("10", data.Int(10)), x) }},
		{"num", func(x *E) *E { return bin("/", lit("12", data.Int(12)), x) }},
		{"num", func(x *E) *E { return bin("<", x, lit("5", data.Int(5))) }},
		{"num", func(x *E) *E { return bin("==", x, lit("7", data.Int(7))) }},
		{"str", func(x *E) *E { return bin("+", lit("'<'", data.String("<")), x) }},
		{"bool", func(x *E) *E { return bin("and", x, lit("true", data.Bool(true))) }},
		{"bool", func(x *E) *E { return bin("or", lit("false", data.Bool(false)), x) }},
		{"num", func(x *E) *E { return &E{K: "list", A: []*E{x, x}} }},
		{"num", func(x *E) *E { return call("length", &E{K: "list", A: []*E{x, lit("1", data.Int(1))}}) }},
		{"num", func(x *E) *E {
			return vr0(&E{K: "var", Op: "mp", Acc: []Acc{{Kind: "dot", Key: "l"}, {Kind: "br", E: bin("-", x, x)}}})
		}},
	}
	for _, cx := range ctxs {
		for _, in := range inner(cx.typ) {
			emit("S6", cx.mk(in))
			// two levels: the context inside another context of the result's use as a string
			emit("S6", bin("+", lit("'='", data.String("=")), cx.mk(in)))
		}
	}
}
