package main

import (
	"fmt"

	"github.com/robfig/soy/parse"
	"verif/vrt"
)

func main() {
	for _, in := range []string{"{namespace a}\n{template .t}\nhi {$x}\n{/template}\n", "{css foo", "/** x", "{'a"} {
		v := vrt.Run(vrt.Options{Fuel: 100000}, func() {
			n, err := parse.SoyFile("f", in)
			fmt.Printf("%q -> %v %v\n", in, n != nil, err)
		})
		fmt.Printf("  ticks=%d exh=%v dl=%v leak=%d threads=%d panic=%v instr=%v\n", v.Ticks, v.Exhausted, v.Deadlock, v.Leaked, v.Threads, v.Panic, vrt.Instrumented())
	}
	v := vrt.Run(vrt.Options{Fuel: 100000}, func() {
		n, err := parse.Expr("1 2 3")
		fmt.Println(n, err)
	})
	fmt.Printf("  ticks=%d exh=%v dl=%v leak=%d %v threads=%d panic=%v\n", v.Ticks, v.Exhausted, v.Deadlock, v.Leaked, v.LeakSites, v.Threads, v.Panic)
}
