package main

import (
	"bytes"
	"fmt"
	"io"
	"net/textproto"
	"os"
	"os/exec"
	"path/filepath"
	"regexp"
	"sort"
	"strings"

	"github.com/robfig/gettext/po"
	"github.com/robfig/soy"
	"github.com/robfig/soy/ast"
	"github.com/robfig/soy/data"
	"github.com/robfig/soy/soyhtml"
	"github.com/robfig/soy/soyjs"
	"github.com/robfig/soy/soymsg"
	"github.com/robfig/soy/soymsg/pomsg"
	"github.com/robfig/soy/template"
	"verif/vrt"
)

func init() { register("C11", checkC11) }

type c11case struct {
	Source    string `json:"source"`
	Catalogue string `json:"catalogue"`
	Locale    string `json:"locale"`
	Data      string `json:"data"`
	PO        string `json:"po,omitempty"`
}

type c11locale struct {
	name   string
	header string
	rule   func(n int) int
	js     string
	forms  int
}

var c11Locales = []c11locale{
	{"ja", "nplurals=1; plural=0;", func(n int) int { return 0 }, "return 0;", 1},
	{"en", "nplurals=2; plural=(n != 1);", func(n int) int {
		if n != 1 {
			return 1
		}
		return 0
	}, "return n != 1 ? 1 : 0;", 2},
	{"cs", "nplurals=3; plural=(n==1) ? 0 : (n>=2 && n<=4) ? 1 : 2;", func(n int) int {
		switch {
		case n == 1:
			return 0
		case n >= 2 && n <= 4:
			return 1
		}
		return 2
	}, "return n == 1 ? 0 : (n >= 2 && n <= 4) ? 1 : 2;", 3},
}

type memOpener map[string]string

func (m memOpener) Open(locale string) (io.ReadCloser, error) {
	s, ok := m[locale]
	if !ok {
		return nil, nil
	}
	return io.NopCloser(strings.NewReader(s)), nil
}

var rePH = regexp.MustCompile(`\{[A-Z0-9_]+\}`)

// splitPH splits a placeholder string into text and {NAME} tokens.
func splitPH(s string) []string {
	var out []string
	pos := 0
	for _, loc := range rePH.FindAllStringIndex(s, -1) {
		if loc[0] > pos {
			out = append(out, s[pos:loc[0]])
		}
		out = append(out, s[loc[0]:loc[1]])
		pos = loc[1]
	}
	if pos < len(s) {
		out = append(out, s[pos:])
	}
	return out
}

func reversePH(s string) string {
	p := splitPH(s)
	for i, j := 0, len(p)-1; i < j; i, j = i+1, j-1 {
		p[i], p[j] = p[j], p[i]
	}
	return strings.Join(p, "")
}

func markPH(s string) string {
	p := splitPH(s)
	for i, x := range p {
		if !rePH.MatchString(x) {
			p[i] = "z" + x
		}
	}
	return strings.Join(p, "")
}

// c11msg is one generated message with what the generator knows about it.
type c11msg struct {
	parts    []MPart
	meaning  string
	surround string // plain | loop | call
}

func (m c11msg) msgSrc() string {
	mattr := ""
	if m.meaning != "" {
		mattr = " meaning=\"" + m.meaning + "\""
	}
	return "{msg" + mattr + " desc=\"d\"}" + srcParts(m.parts) + "{/msg}"
}

// allParts flattens the parts including plural branches (document order).
func allParts(ps []MPart) []MPart {
	var out []MPart
	for _, p := range ps {
		if p.Kind != "text" {
			out = append(out, p)
		}
		if p.Kind == "plural" {
			for _, c := range p.Cases {
				out = append(out, allParts(c.Body)...)
			}
			out = append(out, allParts(p.Default)...)
		}
	}
	return out
}

func c11Messages(thorough bool) []c11msg {
	tx := func(s string) MPart { return MPart{Kind: "text", Text: s} }
	ht := func(s string) MPart { return MPart{Kind: "html", Text: s} }
	pr := func(e *E) MPart { return MPart{Kind: "print", E: e} }
	alpha := []MPart{tx("Hi "), tx(" and "), tx("!"), tx("{lb}"), tx("{rb}"), tx("R&amp;D isn't \"q\" "), ht("<b>"), ht("</b>"), ht("<br/>"), pr(vr("a")), pr(vr("b")), pr(vr("c", Acc{Kind: "dot", Key: "x"})), pr(vr("x")), pr(vr("x_1")),
		pr(bin("+", vr("b"), I(1))), {Kind: "call", Text: "{call .sub data=\"all\"/}"}, pr(vr("i"))}
	var out []c11msg
	var rec func(parts []MPart)
	max := 3
	rec = func(parts []MPart) {
		ncalls := 0
		for _, p := range parts {
			if p.Kind == "call" {
				ncalls++
			}
		}
		if len(parts) > 0 && ncalls < 2 { // two identical calls in one message: naming not asserted (see C10)
			usesI := false
			for _, p := range parts {
				if p.Kind == "print" && p.E.Op == "i" {
					usesI = true
				}
			}
			if usesI {
				out = append(out, c11msg{parts: parts, surround: "loop"})
			} else {
				out = append(out, c11msg{parts: parts, surround: "plain"})
				if len(parts) == 2 {
					out = append(out, c11msg{parts: parts, surround: "call"}, c11msg{parts: parts, meaning: "m", surround: "plain"})
				}
			}
		}
		if len(parts) == max {
			return
		}
		for _, a := range alpha {
			rec(append(append([]MPart{}, parts...), a))
		}
	}
	rec(nil)
	// plurals: PO needs exactly {case 1} and {default}
	bodies := [][]MPart{{tx("one item")}, {pr(vr("n")), tx(" items")}, {tx("You have "), pr(vr("a")), tx(" and "), pr(vr("n"))}, {ht("<b>"), pr(vr("n")), ht("</b>"), tx(" of "), pr(vr("b"))}, {pr(vr("a")), pr(vr("c", Acc{Kind: "dot", Key: "x"}))}}
	for _, one := range bodies {
		for _, many := range bodies {
			out = append(out, c11msg{parts: []MPart{{Kind: "plural", E: vr("n"), Cases: []MCase{{N: 1, Body: one}}, Default: many}}, surround: "plain"})
		}
	}
	out = append(out, c11msg{parts: []MPart{{Kind: "plural", E: call("length", vr("l")), Cases: []MCase{{N: 1, Body: bodies[0]}}, Default: bodies[1]}}, surround: "plain"})
	return out
}

func xgettextPath() string {
	return filepath.Join(filepath.Dir(os.Args[0]), "xgettext-soy")
}

func checkC11(c *Ctx) {
	msgs := c11Messages(c.Thorough())
	xg := xgettextPath()
	if _, err := os.Stat(xg); err != nil {
		panic(vrt.InfraError{Msg: "xgettext-soy binary not found next to the harness: " + err.Error()})
	}
	datas := []data.Map{
		{"a": data.String("A<"), "c": data.Map{"x": data.String("CX<")}, "b": data.Int(7), "x": data.String("X&"), "x_1": data.String("X1"), "n": data.Int(1), "l": data.List{data.Int(1)}},
		{"a": data.String("a"), "c": data.Map{"x": data.String("cx")}, "b": data.Int(0), "x": data.String("x"), "x_1": data.String("y"), "n": data.Int(3), "l": data.List{data.String("p"), data.String("q")}},
		{"a": data.String("q&"), "c": data.Map{"x": data.String("'")}, "b": data.Int(-1), "x": data.String("'"), "x_1": data.String("\""), "n": data.Int(-1), "l": data.List{}},
		{"a": data.String("0"), "c": data.Map{"x": data.String("0")}, "b": data.Int(2), "x": data.String("w"), "x_1": data.String("v"), "n": data.Int(0), "l": data.List{data.Int(1), data.Int(2), data.Int(3)}},
	}
	for _, d := range datas {
		d["t"] = data.Map{"a": data.String("TA"), "b": data.String("TB<"), "x": data.String("TX"), "x_1": data.String("TX1"), "n": data.String("TN")}
	}
	// process messages in groups of 3: one bundle of 3 files, one extractor run, all catalogues
	var group []c11msg
	flush := func() {
		if len(group) > 0 {
			runC11Group(c, xg, group, datas)
			group = nil
		}
	}
	for _, m := range msgs {
		if !c.Mine() {
			continue
		}
		group = append(group, m)
		if len(group) == 3 {
			flush()
		}
	}
	flush()
	// mixed groups: a plural message before, between and after simple ones (catalogue entries are
	// processed in order, so per-entry state must not leak from a plural entry into the next).
	var simples, plurals []c11msg
	for _, m := range msgs {
		if len(m.parts) == 1 && m.parts[0].Kind == "plural" {
			plurals = append(plurals, m)
		} else if m.surround == "plain" && m.meaning == "" {
			simples = append(simples, m)
		}
	}
	// distinct messages with the same source text in the catalogue's own key (meaning + msgid): two plurals
	// with the same {case 1} text, and a plain message equal to that singular text. The library tells
	// them apart by id; each must be extracted and translated on its own.
	{
		tx := func(s string) MPart { return MPart{Kind: "text", Text: s} }
		pr := func(e *E) MPart { return MPart{Kind: "print", E: e} }
		ones := [][]MPart{{tx("one item")}, {tx("You have "), pr(vr("a"))}}
		manys := [][]MPart{{pr(vr("n")), tx(" items")}, {tx("many of "), pr(vr("b"))}, {tx("one item")}}
		for oi, one := range ones {
			for mi := range manys {
				for mj := range manys {
					if mi >= mj {
						continue
					}
					if !c.Mine() {
						continue
					}
					_ = oi
					p1 := c11msg{parts: []MPart{{Kind: "plural", E: vr("n"), Cases: []MCase{{N: 1, Body: one}}, Default: manys[mi]}}, surround: "plain"}
					p2 := c11msg{parts: []MPart{{Kind: "plural", E: vr("n"), Cases: []MCase{{N: 1, Body: one}}, Default: manys[mj]}}, surround: "plain"}
					p3 := c11msg{parts: one, surround: "plain"}
					group = []c11msg{p1, p2, p3}
					flush()
					group = []c11msg{p3, p2, p1}
					flush()
				}
			}
		}
	}
	for pi, p := range plurals {
		for k := 0; k < 3; k++ {
			if !c.Mine() {
				continue
			}
			a, b := simples[(pi*7+k*13)%len(simples)], simples[(pi*11+k*17+5)%len(simples)]
			switch k {
			case 0:
				group = []c11msg{p, a, b}
			case 1:
				group = []c11msg{a, p, b}
			default:
				group = []c11msg{a, b, p}
			}
			flush()
		}
	}
}

// c11Sibling replaces $a by $t.a and $b by $t.b: same placeholder names, same message id, other
// values. Defined for messages whose placeholders are text, html tags and prints of $a / $b only.
func c11Sibling(m c11msg) (c11msg, bool) {
	out := c11msg{meaning: m.meaning, surround: m.surround}
	changed := false
	for _, p := range m.parts {
		switch p.Kind {
		case "text", "html":
			out.parts = append(out.parts, p)
		case "print":
			if p.E.K == "var" && len(p.E.Acc) == 0 && (p.E.Op == "a" || p.E.Op == "b") && p.Dirs == "" {
				out.parts = append(out.parts, MPart{Kind: "print", E: vr("t", Acc{Kind: "dot", Key: p.E.Op})})
				changed = true
			} else {
				return out, false
			}
		default:
			return out, false
		}
	}
	return out, changed
}

const c11Twin = "{msg desc=\"twin\"}tw {$t.a}|{$t.b}|{$t.x}|<b>{$t.x_1}</b>|{$t.n}{/msg}"

func c11File(i int, m c11msg) string {
	doc := "/**\n * @param? a\n * @param? b\n * @param? c\n * @param? x\n * @param? x_1\n * @param? n\n * @param? l\n * @param? t\n */\n"
	use := "{if false}{$a}{$b}{$c}{$x}{$x_1}{$n}{$l}{$t}{/if}"
	ns := fmt.Sprintf("g%d", i)
	var body string
	switch m.surround {
	case "loop":
		body = "{foreach $i in $l}[" + m.msgSrc() + "]{ifempty}empty{/foreach}"
	case "call":
		body = "<{call .inner data=\"all\"/}>"
	default:
		body = "(" + m.msgSrc() + ")"
	}
	s := "{namespace " + ns + "}\n" + doc + "{template .main}\n" + body + use + "\n{/template}\n"
	if m.surround == "call" {
		s += doc + "{template .inner}\n" + m.msgSrc() + use + "\n{/template}\n"
	}
	s += "/** @param? x */\n{template .sub}\nSUB{$x ?: ''}\n{/template}\n"
	if m.surround == "plain" {
		// a second message whose placeholders have the names of the first one's (A, B, X, X_1, START_BOLD, ...)
		// but other contents, alone and in one template with the first message (before and after it).
		s += doc + "{template .twin}\n" + c11Twin + use + "\n{/template}\n"
		s += doc + "{template .both}\n(" + m.msgSrc() + ")#" + c11Twin + "#(" + m.msgSrc() + ")" + use + "\n{/template}\n"
		// a sibling with the same text and placeholder names (hence the same id) but other contents
		if sib, ok := c11Sibling(m); ok {
			s += doc + "{template .sib}\n(" + sib.msgSrc() + ")" + use + "\n{/template}\n"
			s += doc + "{template .pair}\n(" + m.msgSrc() + ")#(" + sib.msgSrc() + ")#(" + m.msgSrc() + ")" + use + "\n{/template}\n"
		}
	}
	// value templates: what each placeholder renders to on its own
	for j, p := range allParts(m.parts) {
		if p.Kind == "plural" {
			continue
		}
		idoc := doc
		if m.surround == "loop" {
			idoc = strings.Replace(doc, " */", " * @param? i\n */", 1)
		}
		s += idoc + fmt.Sprintf("{template .v%d}\n%s%s%s\n{/template}\n", j, p.src(), use, map[bool]string{true: "{if false}{$i}{/if}", false: ""}[m.surround == "loop"])
	}
	return s
}

func runC11Group(c *Ctx, xg string, group []c11msg, datas []data.Map) {
	dir, err := os.MkdirTemp("", "verif-c11-")
	if err != nil {
		panic(vrt.InfraError{Msg: err.Error()})
	}
	defer os.RemoveAll(dir)
	var names []string
	srcs := map[string]string{}
	for i, m := range group {
		n := fmt.Sprintf("g%d.soy", i)
		srcs[n] = c11File(i, m)
		names = append(names, n)
		os.WriteFile(filepath.Join(dir, n), []byte(srcs[n]), 0o644)
	}
	allSrc := ""
	for _, n := range names {
		allSrc += "// " + n + "\n" + srcs[n]
	}
	fail := func(clause, sig string, cs c11case, want, got string) {
		cs.Source = allSrc
		c.Violate(clause, "mismatch", sig, cs, clip(want), clip(got))
	}
	key := allSrc
	// 1. extract with the real tool
	cmd := exec.Command(xg, dir)
	var stdout, stderr bytes.Buffer
	cmd.Stdout, cmd.Stderr = &stdout, &stderr
	if err := cmd.Run(); err != nil {
		c.Observe(key, "extractor failed")
		c.Nontrivial()
		fail("the extractor accepts the bundle", "extract:"+groupSketch(group), c11case{}, "a PO template", err.Error()+": "+stderr.String())
		return
	}
	pot, err := po.Parse(bytes.NewReader(stdout.Bytes()))
	if err != nil {
		c.Observe(key, "pot does not parse")
		c.Nontrivial()
		fail("the extractor output is a PO file", "extract-parse:"+groupSketch(group), c11case{PO: stdout.String()}, "valid PO", err.Error())
		return
	}
	// 2. compile
	var reg *template.Registry
	var cerr error
	vrt.Run(vrt.Options{Fuel: 100000000}, func() {
		b := soy.NewBundle()
		for _, n := range names {
			b = b.AddTemplateString(filepath.Join(dir, n), srcs[n])
		}
		reg, cerr = b.Compile()
	})
	if cerr != nil {
		c.Observe(key, "compile error")
		fail("fixture compiles", "fixture", c11case{}, "compiles", cerr.Error())
		return
	}
	tofu := soyhtml.NewTofu(reg)
	render := func(name string, d data.Map, b soymsg.Bundle) (string, string) {
		var buf bytes.Buffer
		var err error
		vrt.Run(vrt.Options{Fuel: 100000000}, func() {
			r := tofu.NewRenderer(name)
			if b != nil {
				r = r.WithMessages(b)
			}
			err = r.Execute(&buf, d)
		})
		if err != nil {
			return buf.String(), firstLineOf(err.Error())
		}
		return buf.String(), ""
	}
	// message id -> extracted entry
	ids := compiledIDs(reg)
	byID := map[string]po.Message{}
	for _, pm := range pot.Messages {
		for _, r := range pm.References {
			if strings.HasPrefix(r, "id=") {
				byID[strings.TrimPrefix(r, "id=")] = pm
			}
		}
	}
	for i := range group {
		id := ids[fmt.Sprintf("g%d", i)]
		if _, ok := byID[fmt.Sprint(id)]; !ok {
			c.Observe(key, "message not extracted")
			c.Nontrivial()
			fail("every message of the bundle is extracted under its id", "not-extracted:"+msgSketch(group[i].parts), c11case{PO: stdout.String()}, fmt.Sprintf("an entry with id=%d", id), "none")
			return
		}
	}
	var twinID uint64
	for _, t := range reg.Templates {
		if strings.HasSuffix(t.Node.Name, ".twin") {
			collectMsgsAst(t, func(id uint64) { twinID = id })
		}
	}
	// the official id fingerprints placeholder names without braces, so "{A}{X}{XXX}" and "{A}{XXX}{X}"
	// are the same message id by definition: a catalogue cannot tell them apart. Such groups are not asserted.
	phByID := map[uint64]string{}
	for _, t := range reg.Templates {
		collectMsgs(t.Node, func(m *ast.MsgNode) {
			ps := soymsg.PlaceholderString(m)
			if prev, ok := phByID[m.ID]; ok && prev != ps {
				phByID[m.ID] = "\x00collision"
			} else if !ok {
				phByID[m.ID] = ps
			}
		})
	}
	for _, v := range phByID {
		if v == "\x00collision" {
			c.Observe(key, "id collision by design")
			c.Count("groups_skipped_id_collision_by_design", 1)
			return
		}
	}
	obs := strings.Builder{}
	// 3. catalogues x locales
	type cat struct {
		name string
		tr   func(s string) string
		keep func(i int) bool
	}
	cats := []cat{
		{"identity", func(s string) string { return s }, func(int) bool { return true }},
		{"reversed", reversePH, func(int) bool { return true }},
		{"marked", markPH, func(int) bool { return true }},
	}
	for mask := 0; mask < (1<<len(group))-1; mask++ {
		mask := mask
		cats = append(cats, cat{fmt.Sprintf("partial(mask=%b)+marked", mask), markPH, func(i int) bool { return mask&(1<<i) != 0 }})
	}
	for _, loc := range c11Locales {
		for _, ct := range cats {
			// build the catalogue
			file := po.File{Header: textproto.MIMEHeader{"Plural-Forms": {loc.header}}}
			forms := map[int][]string{} // group index -> translated forms
			for i := range group {
				if !ct.keep(i) {
					continue
				}
				pm := byID[fmt.Sprint(ids[fmt.Sprintf("g%d", i)])]
				var strs []string
				if pm.IdPlural == "" {
					strs = []string{ct.tr(pm.Id)}
				} else {
					switch loc.forms {
					case 1:
						strs = []string{ct.tr(pm.IdPlural)}
					case 2:
						strs = []string{ct.tr(pm.Id), ct.tr(pm.IdPlural)}
					default:
						strs = []string{ct.tr(pm.Id), ct.tr("few:" + pm.IdPlural), ct.tr(pm.IdPlural)}
					}
				}
				pm.Str = strs
				forms[i] = strs
				file.Messages = append(file.Messages, pm)
			}
			// the twin message (one entry, shared by all files of the group) is always translated.
			if twinID != 0 {
				if pm, ok := byID[fmt.Sprint(twinID)]; ok {
					pm.Str = []string{ct.tr(pm.Id)}
					file.Messages = append(file.Messages, pm)
				}
			}
			// two generated messages may be the same message (same id): then a catalogue entry kept
			// for one of them translates the other as well.
			for i := range group {
				if _, ok := forms[i]; ok {
					continue
				}
				for j := range group {
					if f, ok := forms[j]; ok && ids[fmt.Sprintf("g%d", j)] == ids[fmt.Sprintf("g%d", i)] {
						forms[i] = f
					}
				}
			}
			var pobuf bytes.Buffer
			file.WriteTo(&pobuf)
			prov, err := pomsg.Load(memOpener{loc.name: pobuf.String()}, []string{loc.name})
			cs := c11case{Catalogue: ct.name, Locale: loc.name + " (" + loc.header + ")", PO: pobuf.String()}
			if err != nil {
				fail("the filled catalogue loads", "load:"+ct.name+":"+loc.name+":"+groupSketch(group), cs, "loads", err.Error())
				continue
			}
			bundle := prov.Bundle(loc.name)
			if bundle == nil {
				fail("the catalogue provides a bundle for its locale", "bundle:"+loc.name, cs, "bundle", "nil")
				continue
			}
			// JS for all files with this bundle
			var js bytes.Buffer
			var jsErr error
			vrt.Run(vrt.Options{Fuel: 100000000}, func() {
				for _, f := range reg.SoyFiles {
					if err := soyjs.Write(&js, f, soyjs.Options{Messages: bundle}); err != nil {
						jsErr = err
						return
					}
				}
			})
			vm, _ := newJSVM()
			jsRun(vm, "soy.$$pluralIndex = function(n) { "+loc.js+" };")
			if jsErr == nil {
				_, jsErr = jsRun(vm, js.String())
			}
			for i, m := range group {
				entry := fmt.Sprintf("g%d.main", i)
				sig := ct.name + ":" + loc.name + ":" + msgSketch(m.parts) + ":" + m.surround
				for _, d := range datas {
					cs.Data = dataKey(d)
					got, gerr := render(entry, d, bundle)
					src, serr := render(entry, d, nil)
					obs.WriteString(got + "|")
					c.Count("renders", 1)
					if serr != "" {
						continue // the source itself fails for this data: out of scope
					}
					if gerr != "" {
						fail("rendering with the catalogue succeeds", "error:"+sig, cs, src, gerr)
						continue
					}
					// expected text
					strs, translated := forms[i]
					want := src
					if translated {
						w, ok := c11Expected(m, i, strs, loc, d, render)
						if !ok {
							continue
						}
						want = w
					}
					switch {
					case !translated && got != src:
						fail("a message absent from the catalogue falls back to its source text", "fallback:"+sig, cs, src, got)
					case translated && ct.name == "identity" && loc.forms == 2 && got != src:
						fail("the identity translation renders byte-for-byte what rendering without a catalogue does", "identity:"+sig, cs, src, got)
					case translated && got != want:
						fail("every translated text segment and every placeholder's live value lands where the translation puts it", "placement:"+sig, cs, want, got)
					}
					// the same message in one template with another message that has like-named placeholders
					if m.surround == "plain" && gerr == "" {
						tw, terr := render(fmt.Sprintf("g%d.twin", i), d, bundle)
						both, berr := render(fmt.Sprintf("g%d.both", i), d, bundle)
						c.Count("renders", 2)
						if terr == "" && (berr != "" || both != got+"#"+tw+"#"+got) {
							fail("a message renders from its own placeholders whatever other messages the template contains", "neighbour-message:"+sig, cs, got+"#"+tw+"#"+got, both+berr)
						}
						if jsErr == nil && berr == "" {
							if jb, jerr := jsCallTemplate(vm, fmt.Sprintf("g%d.both", i), toJSON(d), ""); jerr != nil || normEntities(jb) != normEntities(both) {
								fail("the Go and JavaScript backends agree", "go-vs-js-neighbour:"+sig, cs, "Go: "+both, fmt.Sprint("JS: ", jb, jerr))
							}
						}
						if _, ok := c11Sibling(m); ok {
							sb, serr2 := render(fmt.Sprintf("g%d.sib", i), d, bundle)
							pair, perr := render(fmt.Sprintf("g%d.pair", i), d, bundle)
							c.Count("renders", 2)
							if serr2 == "" && (perr != "" || pair != got+"#"+sb+"#"+got) {
								fail("a message renders from its own placeholders whatever other messages the template contains", "same-id-sibling:"+sig, cs, got+"#"+sb+"#"+got, pair+perr)
							}
						}
					}
					// Go == JS (ASCII data only: otto)
					if jsErr != nil {
						fail("JavaScript is generated and loads with the catalogue", "js:"+sig, cs, "loads", jsErr.Error())
						continue
					}
					jout, jerr := jsCallTemplate(vm, entry, toJSON(d), "")
					if jerr != nil {
						fail("the Go and JavaScript backends agree", "js-error:"+sig, cs, got, jerr.Error())
					} else if normEntities(jout) != normEntities(got) {
						fail("the Go and JavaScript backends agree", "go-vs-js:"+sig, cs, "Go: "+got, "JS: "+jout)
					}
				}
			}
		}
	}
	c.Observe(key, obs.String())
	c.Nontrivial()
	if c.Index()%40 == 0 {
		c.Sample(map[string]any{"messages": []string{group[0].msgSrc()}, "extracted": stdout.String()})
	}
}

// c11Expected computes what the message must render to under the translated forms.
func c11Expected(m c11msg, gi int, strs []string, loc c11locale, d data.Map, render func(string, data.Map, soymsg.Bundle) (string, string)) (string, bool) {
	// placeholder name -> value template index
	nm := map[*MPart]string{}
	units := refNames(m.parts)
	for _, u := range units {
		nm[u.part] = u.name
	}
	valueOf := func(name string, dd data.Map) (string, bool) {
		j := 0
		found := -1
		var walk func(ps []MPart)
		walk = func(ps []MPart) {
			for i := range ps {
				p := &ps[i]
				if p.Kind == "text" {
					continue
				}
				if p.Kind != "plural" && nm[p] == name && found < 0 {
					found = j
				}
				j++
				if p.Kind == "plural" {
					for _, cc := range p.Cases {
						walk(cc.Body)
					}
					walk(p.Default)
				}
			}
		}
		// note: refNames kept pointers into m.parts; walk the same slices
		walk(m.parts)
		if found < 0 {
			return "", false
		}
		out, e := render(fmt.Sprintf("g%d.v%d", gi, found), dd, nil)
		return out, e == ""
	}
	subst := func(form string, dd data.Map) (string, bool) {
		var b strings.Builder
		for _, tok := range splitPH(form) {
			if rePH.MatchString(tok) {
				v, ok := valueOf(tok[1:len(tok)-1], dd)
				if !ok {
					return "", false
				}
				b.WriteString(v)
			} else {
				b.WriteString(tok)
			}
		}
		return b.String(), true
	}
	form := func(dd data.Map) (string, bool) {
		if len(m.parts) == 1 && m.parts[0].Kind == "plural" {
			env := &Env{Vars: dd}
			nv, st := env.Eval(m.parts[0].E)
			n, isInt := nv.(data.Int)
			if st != stOK || !isInt {
				return "", false
			}
			idx := loc.rule(int(n))
			if idx >= len(strs) {
				return "", false
			}
			return strs[idx], true
		}
		return strs[0], true
	}
	switch m.surround {
	case "loop":
		l, _ := d["l"].(data.List)
		if len(l) == 0 {
			return "empty", true
		}
		out := ""
		for _, it := range l {
			dd := data.Map{}
			for k, v := range d {
				dd[k] = v
			}
			dd["i"] = it
			f, ok := form(dd)
			if !ok {
				return "", false
			}
			s, ok := subst(f, dd)
			if !ok {
				return "", false
			}
			out += "[" + s + "]"
		}
		return out, true
	case "call":
		f, ok := form(d)
		if !ok {
			return "", false
		}
		s, ok := subst(f, d)
		return "<" + s + ">", ok
	}
	f, ok := form(d)
	if !ok {
		return "", false
	}
	s, ok := subst(f, d)
	return "(" + s + ")", ok
}

func compiledIDs(reg *template.Registry) map[string]uint64 {
	out := map[string]uint64{}
	for _, t := range reg.Templates {
		ns := strings.SplitN(t.Node.Name, ".", 2)[0]
		if !strings.HasSuffix(t.Node.Name, ".main") && !strings.HasSuffix(t.Node.Name, ".inner") {
			continue
		}
		collectMsgsAst(t, func(id uint64) {
			out[ns] = id
		})
	}
	return out
}

func groupSketch(g []c11msg) string {
	var s []string
	for _, m := range g {
		s = append(s, msgSketch(m.parts))
	}
	sort.Strings(s)
	return strings.Join(s, " ; ")
}
