package main

import (
	"fmt"
	"time"

	"verif/vrt"
)

// exploreDeadline is the worker's soft deadline: an exploration that passes it stops and reports
// itself capped (the check then reports exhaustive:false, never a violation).
var exploreDeadline time.Time

// exploreStats reports what a schedule/choice exploration covered.
type exploreStats struct {
	Execs     int64
	Points    int64 // choice points seen (sum over executions)
	MaxPoints int
	Bound     int
	Capped    bool
}

// explore runs body under every choice sequence whose deviation cost is at
// most bound (stateless DFS, lowest cost first).  check is called for every
// execution.  Before exploring, the default sequence is replayed twice and the
// recorded choice points compared: a difference is nondeterminism the runtime
// does not own and aborts with an infrastructure error.
func explore(opt vrt.Options, bound int, maxExecs int64, body func(), check func(v vrt.Verdict, prefix []int)) exploreStats {
	return exploreWithSetup(opt, bound, maxExecs, nil, body, check)
}

// exploreWithSetup is explore with a setup step that runs before every execution, outside the
// explored execution (e.g. compiling a fresh bundle so that every schedule starts cold).
func exploreWithSetup(opt vrt.Options, bound int, maxExecs int64, setup func(), body func(), check func(v vrt.Verdict, prefix []int)) exploreStats {
	return exploreSharded(opt, bound, maxExecs, setup, body, check, 0, 1)
}

// exploreSharded explores the share of one worker: every worker runs the root execution (the
// default schedule); the root's children, in the deterministic order in which they are generated,
// are dealt round-robin to the nshards workers, and each worker explores the whole subtree below
// its children.  The union over the workers is exactly the tree explore would cover; the root is
// counted and checked by shard 0 only.
func exploreSharded(opt vrt.Options, bound int, maxExecs int64, setup func(), body func(), check func(v vrt.Verdict, prefix []int), shard, nshards int) exploreStats {
	st := exploreStats{Bound: bound}
	// Every execution must start from the package-level state of a fresh process (pkgstate.go): a
	// cache or memo added to the code under test must not make an execution depend on which
	// executions ran before it. Restoring that state costs as much as a short execution, so it is
	// done before every execution only if an execution was seen to change it ("cold" mode): if the
	// two default runs differ, or if the digest of all package variables at the end of the
	// exploration differs from the pristine digest, the exploration is (re)done in cold mode.
	cold := false
	tracked := len(pkgSnap) > 0
	if tracked && !pkgStateClean {
		restorePackageState()
		pkgStateClean = true
	}
	if tracked && pristineDigest == 0 {
		pristineDigest = deepDigest(packageState()...)
	}
	run := func(prefix []int) vrt.Verdict {
		if cold {
			restorePackageState()
		}
		if setup != nil {
			setup()
		}
		o := opt
		o.Prefix = prefix
		return vrt.Run(o, body)
	}
	for {
		a, b := run(nil), run(nil)
		if fmt.Sprint(choiceShape(a)) == fmt.Sprint(choiceShape(b)) && a.Ticks == b.Ticks {
			break
		}
		if tracked && !cold {
			// the second run may have seen what the first left in a package variable
			cold = true
			continue
		}
		panic(vrt.InfraError{Msg: fmt.Sprintf("replay of the default schedule diverged: %v (%d ticks) vs %v (%d ticks)", choiceShape(a), a.Ticks, choiceShape(b), b.Ticks)})
	}
restart:
	type item struct {
		prefix []int
	}
	queues := make([][]item, bound+1)
	queues[0] = []item{{nil}}
	for cost := 0; cost <= bound; cost++ {
		for len(queues[cost]) > 0 {
			n := len(queues[cost])
			it := queues[cost][n-1]
			queues[cost] = queues[cost][:n-1]
			if maxExecs > 0 && st.Execs >= maxExecs {
				st.Capped = true
				pkgStateClean = false
				return st
			}
			if !exploreDeadline.IsZero() && st.Execs&0x3f == 0 && time.Now().After(exploreDeadline) {
				st.Capped = true
				pkgStateClean = false
				return st
			}
			v := run(it.prefix)
			root := it.prefix == nil
			if !root || shard == 0 {
				st.Execs++
				st.Points += int64(len(v.Choices))
				check(v, it.prefix)
			}
			if len(v.Choices) > st.MaxPoints {
				st.MaxPoints = len(v.Choices)
			}
			// deviation cost accumulated along the executed sequence
			acc := 0
			child := 0
			for i, ch := range v.Choices {
				if i >= len(it.prefix) {
					for alt := 1; alt < ch.N; alt++ {
						c2 := acc + int(ch.Cost[alt])
						if c2 > bound {
							continue
						}
						if root {
							child++
							if nshards > 1 && child%nshards != shard {
								continue
							}
						}
						np := make([]int, i+1)
						for j := 0; j < i; j++ {
							np[j] = v.Choices[j].Picked
						}
						np[i] = alt
						queues[c2] = append(queues[c2], item{np})
					}
				}
				acc += int(ch.Cost[ch.Picked])
			}
		}
	}
	if tracked && !cold && deepDigest(packageState()...) != pristineDigest {
		cold = true
		st = exploreStats{Bound: bound}
		goto restart
	}
	if cold {
		pkgStateClean = false
	}
	return st
}

// pkgStateClean: the package variables are known to hold their initial values (the last
// exploration ended in the fast mode with an unchanged digest). pristineDigest: their digest.
var (
	pkgStateClean  bool
	pristineDigest uint64
)

func choiceShape(v vrt.Verdict) []int {
	out := make([]int, len(v.Choices))
	for i, c := range v.Choices {
		out[i] = c.N
	}
	return out
}
