package main

import (
	"bytes"
	"fmt"
	"strings"

	"github.com/robfig/soy"
	"github.com/robfig/soy/data"
	"verif/vrt"
)

func init() { register("C01", checkC01) }

// exprCase is one generated program of C01.
type exprCase struct {
	Stratum  string   `json:"stratum"`
	Position string   `json:"position"`
	Expr     string   `json:"expr"`
	Sketch   string   `json:"sketch"`
	Source   string   `json:"source"`
	Globals  []string `json:"globals,omitempty"`
}

// position describes a syntactic position that takes an expression.
type position struct {
	name string
	// body returns the template body for the expression source, extra templates, and extra variables used.
	body func(src string) (body, extra string, vars []string, ok bool)
	// expect computes what the program must write; for stError the string is the text written before the failure.
	expect func(env *Env, e *E) (string, status)
}

const calleeP = "/** @param? p */\n{template .c}\n({$p})\n{/template}\n"
const calleeK = "/** @param? k */\n{template .c}\n({$k ?: 'none'})\n{/template}\n"

func printedOrErr(env *Env, e *E, pre, post string) (string, status) {
	s, st := env.printed(e)
	switch st {
	case stOK:
		return pre + s + post, stOK
	case stError:
		return pre, stError
	}
	return "", stUnspec
}

func valOf(env *Env, e *E) (data.Value, status) { return env.Eval(e) }

func refTruncate(s string, n int) (string, bool) {
	if n < 0 {
		return "", false
	}
	if len(s) <= n {
		return s, true
	}
	if n > 3 {
		return s[:n-3] + "...", true
	}
	return s[:n], true
}

func positions() []position {
	noQuote := func(src string) bool { return !strings.Contains(src, `"`) }
	return []position{
		{"print", func(src string) (string, string, []string, bool) { return "A{" + src + "}B", "", nil, true },
			func(env *Env, e *E) (string, status) { return printedOrErr(env, e, "A", "B") }},
		{"printcmd", func(src string) (string, string, []string, bool) { return "A{print " + src + "}B", "", nil, true },
			func(env *Env, e *E) (string, status) { return printedOrErr(env, e, "A", "B") }},
		{"if", func(src string) (string, string, []string, bool) {
			return "A{if " + src + "}T{else}F{/if}B", "", nil, true
		}, func(env *Env, e *E) (string, status) {
			v, st := valOf(env, e)
			if st == stError {
				return "A", stError
			}
			if st != stOK {
				return "", st
			}
			if refTruthy(v) {
				return "ATB", stOK
			}
			return "AFB", stOK
		}},
		{"elseif", func(src string) (string, string, []string, bool) {
			return "A{if $f}x{elseif " + src + "}T{else}F{/if}B", "", []string{"f"}, true
		}, func(env *Env, e *E) (string, status) {
			v, st := valOf(env, e)
			if st == stError {
				return "A", stError
			}
			if st != stOK {
				return "", st
			}
			if refTruthy(v) {
				return "ATB", stOK
			}
			return "AFB", stOK
		}},
		{"let", func(src string) (string, string, []string, bool) {
			return "A{let $v: " + src + " /}[{$v}]B", "", nil, true
		}, func(env *Env, e *E) (string, status) {
			s, st := env.printed(e)
			if st == stError {
				// the let itself fails (pre "A") or printing undefined fails (pre "A[")
				if _, st2 := env.Eval(e); st2 == stError {
					return "A", stError
				}
				return "A[", stError
			}
			if st != stOK {
				return "", st
			}
			return "A[" + s + "]B", stOK
		}},
		{"param", func(src string) (string, string, []string, bool) {
			return "A{call .c}{param p: " + src + " /}{/call}B", calleeP, nil, true
		}, func(env *Env, e *E) (string, status) {
			s, st := env.printed(e)
			if st == stError {
				if _, st2 := env.Eval(e); st2 == stError {
					return "A", stError
				}
				return "A(", stError
			}
			if st != stOK {
				return "", st
			}
			return "A(" + s + ")B", stOK
		}},
		{"paramattr", func(src string) (string, string, []string, bool) {
			return "A{call .c}{param key=\"p\" value=\"" + src + "\"/}{/call}B", calleeP, nil, noQuote(src) && !strings.Contains(src, `\`)
		}, func(env *Env, e *E) (string, status) {
			s, st := env.printed(e)
			if st == stError {
				if _, st2 := env.Eval(e); st2 == stError {
					return "A", stError
				}
				return "A(", stError
			}
			if st != stOK {
				return "", st
			}
			return "A(" + s + ")B", stOK
		}},
		{"calldata", func(src string) (string, string, []string, bool) {
			return "A{call .c data=\"" + src + "\"/}B", calleeK, nil, noQuote(src) && !strings.Contains(src, `\`)
		}, func(env *Env, e *E) (string, status) {
			v, st := valOf(env, e)
			if st == stError {
				return "A", stError
			}
			if st != stOK {
				return "", st
			}
			m, ok := v.(data.Map)
			if !ok {
				return "", stUnspec
			}
			k, has := m["k"]
			if !has || isNull(k) || isUndef(k) {
				return "A(none)B", stOK
			}
			s, ok2 := refStr(k)
			if !ok2 {
				return "", stUnspec
			}
			return "A(" + refEscape(s) + ")B", stOK
		}},
		{"switch", func(src string) (string, string, []string, bool) {
			return "A{switch " + src + "}{case 1}one{case 'a', true}ab{case null}nul{default}dflt{/switch}B", "", nil, true
		}, func(env *Env, e *E) (string, status) {
			v, st := valOf(env, e)
			if st == stError {
				return "A", stError
			}
			if st != stOK {
				return "", st
			}
			for _, c := range []struct {
				v   data.Value
				out string
			}{{data.Int(1), "one"}, {data.String("a"), "ab"}, {data.Bool(true), "ab"}, {data.Null{}, "nul"}} {
				eq, ok := refEquals(v, c.v)
				if !ok {
					return "", stUnspec
				}
				if eq {
					return "A" + c.out + "B", stOK
				}
			}
			return "AdfltB", stOK
		}},
		{"case", func(src string) (string, string, []string, bool) {
			return "A{switch $i}{case 0, " + src + "}T{default}F{/switch}B", "", []string{"i"}, true
		}, func(env *Env, e *E) (string, status) {
			v, st := valOf(env, e)
			if st == stError {
				return "A", stError
			}
			if st != stOK {
				return "", st
			}
			eq, ok := refEquals(data.Int(3), v)
			if !ok {
				return "", stUnspec
			}
			if eq {
				return "ATB", stOK
			}
			return "AFB", stOK
		}},
		{"for", func(src string) (string, string, []string, bool) {
			return "A{for $it in " + src + "}{$it};{ifempty}E{/for}B", "", nil, true
		}, func(env *Env, e *E) (string, status) {
			v, st := valOf(env, e)
			if st == stError {
				return "A", stError
			}
			if st != stOK {
				return "", st
			}
			l, ok := v.(data.List)
			if !ok {
				return "", stUnspec
			}
			if len(l) == 0 {
				return "AEB", stOK
			}
			out := "A"
			for _, it := range l {
				s, ok := refStr(it)
				if !ok || isUndef(it) {
					return "", stUnspec
				}
				out += refEscape(s) + ";"
			}
			return out + "B", stOK
		}},
		{"rangearg", func(src string) (string, string, []string, bool) {
			return "A{for $it in range(" + src + ")}{$it}{/for}B", "", nil, !strings.Contains(src, "9007199254740991")
		}, func(env *Env, e *E) (string, status) {
			v, st := valOf(env, e)
			if st == stError {
				return "A", stError
			}
			if st != stOK {
				return "", st
			}
			n, ok := v.(data.Int)
			if !ok || n > 50 {
				return "", stUnspec
			}
			out := "A"
			for i := 0; i < int(n); i++ {
				out += fmt.Sprint(i)
			}
			return out + "B", stOK
		}},
		{"directivearg", func(src string) (string, string, []string, bool) {
			return "A{'abcdefghij'|truncate:" + src + "}B", "", nil, true
		}, func(env *Env, e *E) (string, status) {
			v, st := valOf(env, e)
			if st == stError {
				return "A", stError
			}
			if st != stOK {
				return "", st
			}
			n, ok := v.(data.Int)
			if !ok {
				return "", stUnspec
			}
			s, ok := refTruncate("abcdefghij", int(n))
			if !ok {
				return "", stUnspec
			}
			return "A" + s + "B", stOK
		}},
		{"listelem", func(src string) (string, string, []string, bool) { return "A{[" + src + ", 1]}B", "", nil, true },
			func(env *Env, e *E) (string, status) {
				return printedOrErr(env, &E{K: "list", A: []*E{e, lit("1", data.Int(1))}}, "A", "B")
			}},
		{"mapvalue", func(src string) (string, string, []string, bool) { return "A{['k': " + src + "]}B", "", nil, true },
			func(env *Env, e *E) (string, status) {
				return printedOrErr(env, &E{K: "map", Keys: []string{"k"}, A: []*E{e}}, "A", "B")
			}},
		{"index", func(src string) (string, string, []string, bool) {
			return "A{$l[" + src + "]}B", "", []string{"l"}, true
		},
			func(env *Env, e *E) (string, status) {
				return printedOrErr(env, vr("l", Acc{Kind: "br", E: e}), "A", "B")
			}},
		{"funcarg", func(src string) (string, string, []string, bool) { return "A{isNonnull(" + src + ")}B", "", nil, true },
			func(env *Env, e *E) (string, status) { return printedOrErr(env, call("isNonnull", e), "A", "B") }},
		{"funcarg2", func(src string) (string, string, []string, bool) { return "A{max(0, " + src + ")}B", "", nil, true },
			func(env *Env, e *E) (string, status) {
				return printedOrErr(env, call("max", lit("0", data.Int(0)), e), "A", "B")
			}},
		{"css", func(src string) (string, string, []string, bool) {
			return "A{css " + src + ", suf}B", "", nil, !strings.ContainsAny(src, "}")
		}, func(env *Env, e *E) (string, status) {
			v, st := valOf(env, e)
			if st == stError {
				return "A", stError
			}
			if st != stOK {
				return "", st
			}
			if isUndef(v) {
				return "", stUnspec
			}
			s, ok := refStr(v)
			if !ok {
				return "", stUnspec
			}
			return "A" + s + "-sufB", stOK
		}},
		{"plural", func(src string) (string, string, []string, bool) {
			return "A{msg desc=\"d\"}{plural " + src + "}{case 1}one{default}other{/plural}{/msg}B", "", nil, true
		}, func(env *Env, e *E) (string, status) {
			v, st := valOf(env, e)
			if st == stError {
				return "A", stError
			}
			if st != stOK {
				return "", st
			}
			n, ok := v.(data.Int)
			if !ok {
				return "", stUnspec
			}
			if n == 1 {
				return "AoneB", stOK
			}
			return "AotherB", stOK
		}},
	}
}

// lexShapes: expression shapes that stress the lexer (S3).
func lexShapes() []*E {
	I := func(n int64) *E { return lit(fmt.Sprint(n), data.Int(n)) }
	S := func(s string) *E { return lit(quoteSoy(s), data.String(s)) }
	return []*E{
		I(3), I(-2), vr("i"), un("-", vr("i")), un("-", I(3)), un("-", bin("+", I(1), I(2))), un("not", vr("t")), un("not", vr("z")),
		bin("*", bin("+", I(1), I(2)), I(3)), bin("+", I(-1), I(2)), bin("-", I(1), I(-2)), bin("-", vr("i"), I(1)),
		bin("*", vr("i"), I(-1)), bin("==", vr("i"), I(3)), bin("==", vr("m"), I(-2)), bin("*", un("-", vr("i")), I(2)),
		S("a}b"), S("a:b"), S("a|b"), S("a,b"), S("it's"), S(""), S("k"),
		{K: "list", A: []*E{I(1), I(2)}}, {K: "list", A: []*E{I(-1), un("-", vr("i"))}}, {K: "list"},
		{K: "map", Keys: []string{"k"}, A: []*E{I(-1)}}, {K: "map", Keys: []string{"k", "j"}, A: []*E{S("w"), un("-", vr("i"))}}, {K: "map"},
		tern(vr("t"), tern(vr("f"), I(1), I(2)), I(3)), tern(vr("t"), I(-1), I(-2)), tern(vr("f"), un("-", vr("i")), un("-", vr("m"))),
		bin("?:", vr("n"), I(-1)), bin("?:", vr("und"), un("-", vr("i"))), bin("?:", vr("i"), I(0)),
		vr("l", Acc{Kind: "idx", Idx: 0}), vr("l", Acc{Kind: "br", E: bin("+", I(-1), I(1))}), vr("mp", Acc{Kind: "br", E: S("k")}), vr("mp", Acc{Kind: "dot", Key: "i"}),
		call("max", I(-1), I(-2)), call("min", un("-", vr("i")), I(0)), un("not", bin("and", vr("t"), vr("f"))), call("length", vr("l")),
		lit("0x1F", data.Int(31)), lit("1e3", data.Float(1000)), lit("0.5", data.Float(0.5)), bin("-", lit("0.5", data.Float(0.5)), lit("1.5", data.Float(1.5))),
		vr("mp"), vr("m0"), vr("l0"), vr("l"), vr("und"), vr("n"), glob("G_I", data.Int(7)), bin("-", glob("G_I", data.Int(7)), I(1)), un("-", glob("G_I", data.Int(7))),
		bin("and", vr("t"), un("not", vr("f"))), bin("or", vr("f"), bin("==", I(-1), un("-", I(1)))),
		call("range", I(2)), call("augmentMap", vr("mp"), &E{K: "map", Keys: []string{"k"}, A: []*E{I(-5)}}),
		// a binary minus directly after every kind of access (the scanner decides between sign and operator by the previous token)
		bin("-", vr("mp", Acc{Kind: "dot", Key: "i"}), I(1)), bin("-", vr("mp", Acc{Kind: "qdot", Key: "i"}), I(1)), bin("-", vr("l", Acc{Kind: "idx", Idx: 0}), I(1)),
		bin("-", vr("l", Acc{Kind: "qidx", Idx: 0}), I(1)), bin("-", vr("l", Acc{Kind: "br", E: I(0)}), vr("i")), bin("-", vr("l", Acc{Kind: "qbr", E: I(0)}), un("-", vr("i"))),
		bin("-", vr("mp", Acc{Kind: "qbr", E: S("i")}), I(-1)), bin("-", call("length", vr("l")), I(1)), bin("-", bin("+", vr("i"), I(1)), I(1)), bin("-", S("7"), I(1)),
	}
}

func checkC01(c *Ctx) {
	refFloatDigits = 17
	env := exprEnv()
	pos := positions()
	run := func(stratum string, p position, e *E, mode int) {
		if !c.Mine() {
			return
		}
		src := e.src(mode)
		body, extra, pvars, ok := p.body(src)
		if !ok {
			return
		}
		vars := usedVars(e)
		for _, v := range pvars {
			found := false
			for _, u := range vars {
				if u == v {
					found = true
				}
			}
			if !found {
				vars = append(vars, v)
			}
		}
		source := "{namespace v}\n" + soydocFor(vars) + "{template .m}\n" + body + "\n{/template}\n" + extra
		globals := data.Map{}
		e.globals(globals)
		want, st := p.expect(env, e)
		ec := exprCase{Stratum: stratum, Position: p.name, Expr: src, Sketch: sketch(e), Source: source}
		for k := range globals {
			ec.Globals = append(ec.Globals, k)
		}
		runExprCase(c, ec, globals, want, st)
	}
	emitPrint := func(stratum string, e *E) {
		run(stratum, pos[0], e, 0)
		if e.K == "bin" || e.K == "un" || e.K == "tern" {
			hasNested := false
			for _, a := range e.A {
				if a.K == "bin" || a.K == "un" || a.K == "tern" {
					hasNested = true
				}
			}
			if hasNested {
				run(stratum+"p", pos[0], e, 1) // redundant parentheses
			}
		}
	}
	exprS1(emitPrint)
	exprS2(emitPrint, c.Thorough())
	exprS4(emitPrint, map[bool]int{false: 2, true: 3}[c.Thorough()])
	// function calls and argument contexts also after an earlier call and printed twice in one
	// render (whatever an evaluation leaves in the render state must not reach the next one).
	repeated := position{"print twice after a call", func(src string) (string, string, []string, bool) {
		return "{length([1, 2])}A{" + src + "}B{" + src + "}C", "", nil, true
	}, func(env *Env, e *E) (string, status) {
		s, st := env.printed(e)
		switch st {
		case stOK:
			return "2A" + s + "B" + s + "C", stOK
		case stError:
			return "2A", stError
		}
		return "", stUnspec
	}}
	emitTwice := func(stratum string, e *E) {
		emitPrint(stratum, e)
		run(stratum+"r", repeated, e, 0)
	}
	exprS5(emitTwice)
	exprS6(emitTwice)
	c01DataDriven(c)
	c01GlobalsFromText(c, env)
	if c.Thorough() {
		// thorough: the whole S1 stratum (every operator over every pair of atoms) and the function
		// stratum in every syntactic position, not only in a print.
		for _, p := range pos[1:] {
			p := p
			exprS1(func(st string, e *E) { run(st+"@"+p.name, p, e, 0) })
			if strings.Contains(p.name, "range") {
				continue // a function result such as round(12345.678) as a loop bound is a long loop, not a hang
			}
			exprS5(func(st string, e *E) { run(st+"@"+p.name, p, e, 0) })
		}
	}
	// S3: every syntactic position x lexer-stressing shapes
	for _, p := range pos {
		for _, e := range lexShapes() {
			run("S3", p, e, 0)
		}
	}
	// S3b: every position x every atom and every (op, small operands) pair, for the
	// expression forms whose first token is special (unary minus, not, paren).
	atoms := exprAtoms()
	for _, p := range pos[2:] {
		for _, a := range atoms {
			run("S3b", p, a, 0)
		}
		for _, op := range binOps {
			run("S3b", p, bin(op, vr("i"), lit("-2", data.Int(-2))), 0)
			run("S3b", p, bin(op, un("-", vr("i")), vr("m")), 0)
			run("S3b", p, bin(op, vr("t"), vr("z")), 0)
			run("S3b", p, bin(op, bin("+", vr("i"), vr("m")), lit("2", data.Int(2))), 1)
		}
	}
}

type exprOutcome struct {
	compileErr string
	out        string
	renderErr  string
	v          vrt.Verdict
}

func compileAndRender(source string, globals data.Map, vars data.Map, ij data.Map, fuel int64) exprOutcome {
	var o exprOutcome
	o.v = vrt.Run(vrt.Options{Fuel: fuel}, func() {
		b := soy.NewBundle().AddTemplateString("t.soy", source)
		if len(globals) > 0 {
			b = b.AddGlobalsMap(globals)
		}
		tofu, err := b.CompileToTofu()
		if err != nil {
			o.compileErr = err.Error()
			return
		}
		var buf bytes.Buffer
		err = tofu.NewRenderer("v.m").Inject(ij).Execute(&buf, vars)
		o.out = buf.String()
		if err != nil {
			o.renderErr = firstLineOf(err.Error())
			if o.renderErr == "" {
				o.renderErr = "error"
			}
		}
	})
	return o
}

func firstLineOf(s string) string {
	if i := strings.IndexByte(s, '\n'); i >= 0 {
		return s[:i]
	}
	return s
}

func runExprCase(c *Ctx, ec exprCase, globals data.Map, want string, st status) {
	// supply exactly the declared params that have a value.
	vars := data.Map{}
	for k, v := range exprEnvVars {
		if strings.Contains(ec.Source, "@param "+k+"\n") {
			vars[k] = v
		}
	}
	o := compileAndRender(ec.Source, globals, vars, exprIJ, 300000)
	obs := fmt.Sprintf("c=%v|o=%s|e=%v", o.compileErr != "", normEntities(o.out), o.renderErr != "")
	if st == stUnspec {
		// unspecified cells may legitimately depend on map order (keys()): only "returned" is observed.
		obs = fmt.Sprintf("unspecified|c=%v", o.compileErr != "")
	}
	if o.v.Panic != nil {
		obs = fmt.Sprintf("panic:%v", o.v.Panic)
	}
	if o.v.Exhausted {
		obs = "hang"
	}
	c.Observe(ec.Source, obs)
	if st != stUnspec {
		c.Nontrivial()
	}
	c.Count("status_"+[]string{"ok", "error", "unspecified"}[st], 1)
	if c.Index()%9973 == 0 {
		c.Sample(map[string]any{"case": ec, "expected": want, "expected_status": []string{"ok", "error", "unspecified"}[st], "observed": obs})
	}
	sig := ec.Stratum + ":" + ec.Position + ":" + ec.Sketch
	switch {
	case o.v.Exhausted:
		c.Violate("terminates", "hang", "hang:"+sig, ec, "returns", "fuel exhausted in "+o.v.ExhaustSite)
	case o.v.Panic != nil:
		c.Violate("no panic escapes", "panic", "panic:"+sig, ec, "output or error", fmt.Sprintf("panic: %v", o.v.Panic))
	case o.compileErr != "":
		c.Violate("every valid expression is accepted wherever an expression may appear", "mismatch", "reject:"+sig, ec, "compiles", "compile error: "+o.compileErr)
	case st == stOK:
		if o.renderErr != "" {
			c.Violate("renders exactly the text the language defines", "mismatch", "err:"+sig, ec, want, "render error: "+o.renderErr+" (wrote "+o.out+")")
		} else if normEntities(o.out) != want {
			c.Violate("renders exactly the text the language defines", "mismatch", "value:"+sig, ec, want, o.out)
		}
	case st == stError:
		if o.renderErr == "" {
			c.Violate("an expression without a value makes the render return an error", "mismatch", "noerr:"+sig, ec, "render error after writing "+want, "no error; wrote "+o.out)
		} else if normEntities(o.out) != want {
			c.Violate("an expression without a value never produces text", "mismatch", "errtext:"+sig, ec, "error after writing exactly "+want, "error after writing "+o.out)
		}
	}
}

// c01DataDriven (S7): every operator / access / function applied to template parameters, for every
// ordered pair of data values (the operands come from the data map, not from literals): one
// compilation per form, one render per binding.
func s7Values() []data.Value {
	return []data.Value{nil, data.Null{}, data.Bool(true), data.Bool(false), data.Int(0), data.Int(1), data.Int(3), data.Int(-2), data.Int(9007199254740991),
		data.Float(0.5), data.Float(2), data.Float(-1.25), data.String(""), data.String("a"), data.String("7"), data.String("x<&\"'>"), data.String("é"), data.String("k"),
		data.List{}, data.List{data.Int(1), data.String("b")}, data.List{data.List{data.Int(5)}, data.Null{}}, data.Map{}, data.Map{"k": data.String("v")},
		data.Map{"k": data.Map{"k": data.Int(4)}, "n": data.Null{}, "0": data.String("zero")}}
}

func s7Forms() []*E {
	p, q := vr("p"), vr("q")
	var forms []*E
	for _, op := range binOps {
		forms = append(forms, bin(op, p, q))
	}
	forms = append(forms, un("-", p), un("not", p), tern(p, q, lit("'n'", data.String("n"))), bin("?:", p, lit("'d'", data.String("d"))),
		vr("p", Acc{Kind: "dot", Key: "k"}), vr("p", Acc{Kind: "qdot", Key: "k"}), vr("p", Acc{Kind: "idx", Idx: 0}), vr("p", Acc{Kind: "qidx", Idx: 1}),
		vr("p", Acc{Kind: "br", E: q}), vr("p", Acc{Kind: "qbr", E: q}), vr("p", Acc{Kind: "dot", Key: "k"}, Acc{Kind: "dot", Key: "k"}), vr("p", Acc{Kind: "qdot", Key: "k"}, Acc{Kind: "dot", Key: "k"}),
		vr("p", Acc{Kind: "idx", Idx: 0}, Acc{Kind: "idx", Idx: 0}),
		call("length", p), call("keys", p), call("isNonnull", p), call("round", p), call("round", p, q), call("floor", p), call("ceiling", p), call("min", p, q), call("max", p, q),
		call("strContains", p, q), call("augmentMap", p, q), bin("+", bin("+", p, lit("'|'", data.String("|"))), q), bin("==", bin("+", p, q), bin("+", q, p)),
		tern(bin("and", p, q), lit("1", data.Int(1)), lit("2", data.Int(2))), tern(bin("or", p, q), lit("1", data.Int(1)), lit("2", data.Int(2))))
	return forms
}

func s7Bindings() []data.Map {
	vals := s7Values()
	var ds []data.Map
	for _, a := range vals {
		for _, b := range vals {
			d := data.Map{}
			if a != nil {
				d["p"] = a
			}
			if b != nil {
				d["q"] = b
			}
			ds = append(ds, d)
		}
	}
	return ds
}

func c01DataDriven(c *Ctx) {
	forms := s7Forms()
	for fi, f := range forms {
		if !c.Mine() {
			continue
		}
		src := "{namespace v}\n/**\n * @param? p\n * @param? q\n */\n{template .m}\nA{" + f.String() + "}B{if false}{$p}{$q}{/if}\n{/template}\n"
		ds := s7Bindings()
		var res bundleResult
		res.v = vrt.Run(vrt.Options{Fuel: 100000000}, func() {
			tofu, err := soy.NewBundle().AddTemplateString("t.soy", src).CompileToTofu()
			if err != nil {
				res.compileErr = err.Error()
				return
			}
			for _, d := range ds {
				var buf bytes.Buffer
				err := tofu.NewRenderer("v.m").Inject(exprIJ).Execute(&buf, d)
				res.outs = append(res.outs, buf.String())
				if err != nil {
					res.errs = append(res.errs, "error")
				} else {
					res.errs = append(res.errs, "")
				}
			}
		})
		ec := exprCase{Stratum: "S7", Position: "print", Expr: f.String(), Source: src}
		key := "S7\x00" + src
		if res.v.Panic != nil || res.v.Exhausted || res.compileErr != "" {
			c.Observe(key, "bad")
			c.Violate("every valid expression is accepted and evaluates", "mismatch", "S7-bad:"+f.String(), ec, "compiles and renders", fmt.Sprint(res.v.Panic, res.v.Exhausted, res.compileErr))
			continue
		}
		obs := strings.Builder{}
		for i, d := range ds {
			env := &Env{Vars: d, IJ: exprIJ}
			want, st := env.printed(f)
			got := normEntities(res.outs[i])
			if st == stUnspec {
				obs.WriteString("u|")
				continue
			}
			obs.WriteString(got + fmt.Sprint(res.errs[i] != "") + "|")
			c.Count("s7_specified_bindings", 1)
			ec.Sketch = f.String() + " with p=" + kindOf(orUndef(d["p"])) + " q=" + kindOf(orUndef(d["q"]))
			sig := "S7:" + ec.Sketch
			ec.Globals = []string{dataKey(d)}
			switch {
			case st == stOK && res.errs[i] != "":
				c.Violate("renders exactly the text the language defines", "mismatch", "err:"+sig, ec, "A"+want+"B", "render error (wrote "+got+")")
			case st == stOK && got != "A"+want+"B":
				c.Violate("renders exactly the text the language defines", "mismatch", "value:"+sig, ec, "A"+want+"B", got)
			case st == stError && res.errs[i] == "":
				c.Violate("an expression without a value makes the render return an error", "mismatch", "noerr:"+sig, ec, "render error", "no error; wrote "+got)
			case st == stError && got != "A":
				c.Violate("an expression without a value never produces text", "mismatch", "errtext:"+sig, ec, "A", got)
			}
		}
		c.Observe(key, obs.String())
		c.Nontrivial()
		c.Count("s7_renders", int64(len(ds)))
		if fi%9 == 0 {
			c.Sample(map[string]any{"stratum": "S7", "expr": f.String(), "bindings": len(ds)})
		}
	}
}

func orUndef(v data.Value) data.Value {
	if v == nil {
		return data.Undefined{}
	}
	return v
}

// c01GlobalsFromText: a globals file binds each name to the value of a constant expression. Every
// variable-free term of the S1 and S2 strata (and nested calls of S5) is written as a globals line
// and the value ParseGlobals binds is compared with the reference evaluation (primitive results).
func c01GlobalsFromText(c *Ctx, env *Env) {
	seen := map[string]bool{}
	try := func(_ string, e *E) {
		set := map[string]bool{}
		e.vars(set)
		gm := data.Map{}
		e.globals(gm)
		if len(set) > 0 || len(gm) > 0 {
			return
		}
		src := e.src(0)
		if seen[src] || strings.ContainsAny(src, "\n\r") {
			return
		}
		seen[src] = true
		if !c.Mine() {
			return
		}
		want, st := env.Eval(e)
		var got data.Map
		var err error
		v := vrt.Run(vrt.Options{Fuel: 2000000}, func() { got, err = soy.ParseGlobals(strings.NewReader("app.VALUE = " + src + "\n")) })
		ec := exprCase{Stratum: "globals-text", Position: "globals file line", Expr: src, Sketch: sketch(e), Source: "app.VALUE = " + src}
		obs := "error"
		if err == nil && got != nil && got["app.VALUE"] != nil {
			obs, _ = refStr(got["app.VALUE"])
			obs = kindOf(got["app.VALUE"]) + ":" + obs
		}
		if v.Panic != nil || v.Exhausted {
			obs = "panic/hang"
		}
		c.Observe("globals-text\x00"+src, obs)
		switch {
		case v.Panic != nil || v.Exhausted:
			c.Violate("terminates without panic", "panic", "panic:globals-text:"+sketch(e), ec, "value or error", fmt.Sprint(v.Panic, v.Exhausted))
		case st == stOK:
			switch want.(type) {
			case data.Null, data.Bool, data.Int, data.Float, data.String:
			default:
				return // globals are primitives: collections are outside the statement
			}
			ws, ok := refStr(want)
			if !ok {
				return
			}
			c.Nontrivial()
			if obs != kindOf(want)+":"+ws {
				c.Violate("renders exactly the text the language defines", "mismatch", "globals-text:"+sketch(e), ec, kindOf(want)+":"+ws, obs)
			}
		case st == stError:
			c.Nontrivial()
			if err == nil {
				c.Violate("an expression outside the typed domain of its operators is an error", "mismatch", "globals-text-noerror:"+sketch(e), ec, "error", obs)
			}
		}
	}
	exprS1(try)
	exprS2(try, false)
	exprS5(try)
}
