package main

import (
	"bytes"
	"fmt"
	"github.com/robfig/soy"
	"github.com/robfig/soy/soyhtml"
	"strings"
	"unicode/utf8"
	"verif/vrt"

	"github.com/robfig/soy/data"
)

func init() { register("C03", checkC03) }

type c03case struct {
	Files map[string]string `json:"files"`
	Value string            `json:"value"`
	Route string            `json:"route"`
	NS    string            `json:"ns_autoescape"`
	TM    string            `json:"template_autoescape"`
	Chain string            `json:"directives"`
}

// htmlDecode decodes the five character references; ok=false if a raw special
// character (or an ampersand that does not start one of them) is present.
func htmlDecode(s string) (string, bool) {
	var b strings.Builder
	ents := []struct{ e, c string }{{"&amp;", "&"}, {"&lt;", "<"}, {"&gt;", ">"}, {"&#34;", "\""}, {"&#39;", "'"}, {"&quot;", "\""}, {"&apos;", "'"}}
	for i := 0; i < len(s); {
		switch s[i] {
		case '<', '>', '"', '\'':
			return "", false
		case '&':
			matched := false
			for _, en := range ents {
				if strings.HasPrefix(s[i:], en.e) {
					b.WriteString(en.c)
					i += len(en.e)
					matched = true
					break
				}
			}
			if !matched {
				return "", false
			}
		default:
			b.WriteByte(s[i])
			i++
		}
	}
	return b.String(), true
}

// refTruncateBytes: truncate as the implementation documents it (byte limit, cut at a rune boundary, "..." when room).
func refTruncateBytes(s string, n int, ellipsis bool) string {
	if len(s) <= n {
		return s
	}
	if ellipsis {
		if n > 3 {
			n -= 3
		} else {
			ellipsis = false
		}
	}
	for n > 0 && !utf8.RuneStart(s[n]) {
		n--
	}
	s = s[:n]
	if ellipsis {
		s += "..."
	}
	return s
}

type dirSpec struct {
	src      string
	cancel   bool                  // cancels autoescaping
	escaping bool                  // HTML-producing directive that must escape what it passes through
	exempt   bool                  // documented to emit another encoding / raw
	apply    func(s string) string // effect on the decoded text (for escaping dirs: on the text that must be recoverable)
	markup   string                // markup the directive adds itself
}

func c03Dirs() []dirSpec {
	return []dirSpec{
		{src: "|escapeHtml", cancel: true, escaping: true, apply: func(s string) string { return s }},
		{src: "|changeNewlineToBr", cancel: true, escaping: true, markup: "<br>", apply: func(s string) string {
			s = strings.ReplaceAll(s, "\r\n", "")
			s = strings.ReplaceAll(s, "\r", "")
			return strings.ReplaceAll(s, "\n", "")
		}},
		{src: "|insertWordBreaks:5", cancel: true, escaping: true, markup: "<wbr>", apply: func(s string) string { return s }},
		{src: "|truncate:4", apply: func(s string) string { return refTruncateBytes(s, 4, true) }},
		{src: "|truncate:2,false", apply: func(s string) string { return refTruncateBytes(s, 2, false) }},
		{src: "|truncate:100", apply: func(s string) string { return s }},
		{src: "|noAutoescape", cancel: true, exempt: true},
		{src: "|id", cancel: true, exempt: true},
		{src: "|escapeUri", cancel: true, exempt: true},
		{src: "|escapeJsString", cancel: true, exempt: true},
		{src: "|json", cancel: true, exempt: true},
	}
}

func c03Values(thorough bool) []data.Value {
	var vals []data.Value
	for b := 0; b < 256; b++ {
		vals = append(vals, data.String(string([]byte{byte(b)})))
	}
	alpha := []string{"&", "<", ">", "\"", "'", "a"}
	for _, a := range alpha {
		for _, b := range alpha {
			vals = append(vals, data.String(a+b))
			for _, d := range alpha {
				vals = append(vals, data.String(a+b+d))
			}
		}
	}
	vals = append(vals, data.String(""), data.String("é<"), data.String("😀&😀"), data.String("O'Reilly"), data.String("' onfocus='alert(1)"), data.String("a\nb\r\nc<\rd"),
		data.String(strings.Repeat("a", 70)+"<"+strings.Repeat("&", 12)), data.String("&amp;lt;"), data.String("x y<z w&v"),
		data.Int(7), data.Float(2.5), data.Bool(true), data.Null{},
		data.List{data.String("<"), data.String("&'")}, data.Map{"k": data.String("<\"")}, data.List{data.Map{"a": data.String("'")}})
	return vals
}

func checkC03(c *Ctx) {
	modes := []string{"", "true", "false", "contextual", "deprecated-contextual"}
	tmodes := []string{"", "true", "false", "contextual"}
	dirs := c03Dirs()
	vals := c03Values(c.Thorough())

	// Part 1: direct print with directive chains of length 0..2, under every mode combination.
	var chains [][]dirSpec
	chains = append(chains, nil)
	for _, d := range dirs {
		chains = append(chains, []dirSpec{d})
	}
	for _, d1 := range dirs {
		for _, d2 := range dirs {
			chains = append(chains, []dirSpec{d1, d2})
		}
	}
	if c.Thorough() {
		for _, d1 := range dirs {
			for _, d2 := range dirs {
				for _, d3 := range dirs {
					chains = append(chains, []dirSpec{d1, d2, d3})
				}
			}
		}
	}
	for _, ns := range modes {
		for _, tm := range tmodes {
			for _, ch := range chains {
				if !c.Mine() {
					continue
				}
				chainSrc := ""
				for _, d := range ch {
					chainSrc += d.src
				}
				t := &Tmpl{NS: "esc", Name: "m", Params: []Param{{"v", false}}, Autoesc: tm, Body: []*Cmd{txt("["), {K: "print", E: vr("v"), Dirs: chainSrc}, txt("]")}}
				f := &File{Name: "e.soy", NS: "esc", NSAttr: ns, Tmpls: []*Tmpl{t}}
				var ds []data.Map
				for _, v := range vals {
					ds = append(ds, data.Map{"v": v})
				}
				res := runBundle([]*File{f}, []int{0}, "esc.m", ds, nil, 50000000)
				key := fmt.Sprintf("direct|%s|%s|%s", ns, tm, chainSrc)
				cs := c03case{Files: map[string]string{"e.soy": f.src()}, Route: "direct", NS: ns, TM: tm, Chain: chainSrc}
				if res.v.Exhausted || res.v.Panic != nil || res.compileErr != "" {
					c.Observe(key, "bad")
					c.Violate("renders", "panic", "bad:"+key, cs, "renders", fmt.Sprintf("hang=%v panic=%v compile=%s", res.v.Exhausted, res.v.Panic, res.compileErr))
					continue
				}
				effOn := tm != "false" && (tm != "" || ns != "false")
				obs := strings.Builder{}
				for i, v := range vals {
					out, rerr := res.outs[i], res.errs[i]
					obs.WriteString(out)
					obs.WriteString("|")
					val, _ := refStr(v)
					cs.Value = fmt.Sprintf("%q", val)
					if rerr != "" {
						continue // e.g. a directive rejecting a non-string: C06's business
					}
					if !strings.HasPrefix(out, "[") || !strings.HasSuffix(out, "]") {
						c.Violate("template text intact", "mismatch", "frame:"+key, cs, "[...]", out)
						continue
					}
					body := out[1 : len(out)-1]
					// classify the chain
					cancelled, exempt := false, false
					expect := val
					nEsc := 0
					markups := map[string]bool{}
					wbrNotLast := false
					for j, d := range ch {
						if d.exempt {
							exempt = true
						}
						if d.cancel {
							cancelled = true
						}
						if d.escaping {
							nEsc++
							if d.markup != "" {
								markups[d.markup] = true
								if j != len(ch)-1 {
									wbrNotLast = true
								}
							}
						}
						if d.apply != nil {
							expect = d.apply(expect)
						}
					}
					if exempt || (!effOn && nEsc == 0) {
						c.Count("exempt_prints", 1)
						continue
					}
					if nEsc > 1 || (nEsc == 1 && wbrNotLast) || (nEsc >= 1 && len(ch) > 1 && chainHasTruncateAfterEscape(ch)) {
						// several escaping passes: only the no-raw-special clause (after removing the directives' own markup)
						stripped := body
						for m := range markups {
							stripped = strings.ReplaceAll(stripped, m, "")
						}
						if _, ok := htmlDecode(stripped); !ok && !chainHasTruncateAfterEscape(ch) {
							c.Violate("escaping directives escape every data character they pass through", "mismatch", "raw-special-multi:"+chainSrc+":"+valClass(val), cs, "no raw & < > \" '", body)
						}
						c.Count("multi_escape_prints", 1)
						continue
					}
					stripped := body
					for m := range markups {
						stripped = strings.ReplaceAll(stripped, m, "")
					}
					dec, ok := htmlDecode(stripped)
					_ = cancelled
					c.Count("checked_prints", 1)
					if !ok {
						c.Violate("no data character reaches the output raw", "mismatch", "raw-special:"+chainSrc+":"+valClass(val), cs, "no raw & < > \" ' in the output", body)
					} else if nEsc >= 1 && strings.ContainsRune(val, 0) {
						c.Count("nul_byte_unspecified", 1) // Go's HTML escaper maps NUL to U+FFFD: outside the statement
					} else if dec != expect {
						c.Violate("the written text decodes back to exactly the value", "mismatch", "decode:"+chainSrc+":"+valClass(val), cs, fmt.Sprintf("decodes to %q", expect), fmt.Sprintf("%q decodes to %q", body, dec))
					}
				}
				c.Observe(key, obs.String())
				c.Nontrivial()
				c.Count("renders", int64(len(vals)))
				if c.Index()%97 == 0 {
					c.Sample(map[string]any{"template": f.src(), "values": len(vals), "chain": chainSrc})
				}
			}
		}
	}

	// Part 1b: one value printed twice in a message under different directive chains, rendered from
	// the source text and through a translating (identity) bundle: each print keeps its own directives.
	{
		mvals := []data.Value{data.String("<"), data.String("&'"), data.String("a\"b"), data.String("x y<z w&v"), data.String("é<"), data.String("a\nb"), data.Int(7)}
		single := append([]dirSpec{{src: ""}}, dirs...)
		for _, ns := range []string{"", "false"} {
			for _, d1 := range single {
				for _, d2 := range single {
					if !c.Mine() {
						continue
					}
					src := "{namespace mm" + map[string]string{"": "", "false": " autoescape=\"false\""}[ns] + "}\n/** @param v */\n{template .t}\n{msg desc=\"d\"}[{$v" + d1.src + "}]-({$v" + d2.src + "}){/msg}\n{/template}\n"
					cs := c03case{Files: map[string]string{"m.soy": src}, Route: "message, same value twice", NS: ns, Chain: d1.src + " / " + d2.src}
					key := "msgtwice|" + ns + "|" + d1.src + "|" + d2.src
					var plain, translated []string
					var cerr error
					v := vrt.Run(vrt.Options{Fuel: 50000000}, func() {
						reg, err := soy.NewBundle().AddTemplateString("m.soy", src).Compile()
						if err != nil {
							cerr = err
							return
						}
						tofu := soyhtml.NewTofu(reg)
						idb := identityBundleFor(reg)
						for _, mv := range mvals {
							var b1, b2 bytes.Buffer
							e1 := tofu.NewRenderer("mm.t").Execute(&b1, data.Map{"v": mv})
							e2 := tofu.NewRenderer("mm.t").WithMessages(idb).Execute(&b2, data.Map{"v": mv})
							plain = append(plain, b1.String()+errClass(e1))
							translated = append(translated, b2.String()+errClass(e2))
						}
					})
					if v.Exhausted || v.Panic != nil || cerr != nil {
						c.Observe(key, "bad")
						c.Violate("renders", "panic", "bad:msgtwice", cs, "renders", fmt.Sprint(v.Exhausted, v.Panic, cerr))
						continue
					}
					c.Observe(key, strings.Join(plain, "|"))
					c.Nontrivial()
					for i := range mvals {
						val, _ := refStr(mvals[i])
						cs.Value = fmt.Sprintf("%q", val)
						if plain[i] != translated[i] {
							c.Violate("a print in a translated message is escaped exactly as in the source message", "mismatch", "msg-twice:"+d1.src+"/"+d2.src, cs, plain[i], translated[i])
							break
						}
					}
				}
			}
		}
	}

	// Part 2: routes through blocks and calls, compared with the reference interpreter (no directives).
	type route struct {
		name string
		mk   func(calleeNS, calleeTM string) ([]*Cmd, []*Tmpl)
	}
	showV := func(tm string) *Tmpl {
		return &Tmpl{NS: "other", Name: "show", Params: []Param{{"v", true}, {"w", true}}, Autoesc: tm, Body: []*Cmd{txt("("), pr(bin("?:", vr("v"), S("-"))), txt("|"), pr(bin("?:", vr("w"), S("-"))), txt(")")}}
	}
	routes := []route{
		{"let-content", func(_, _ string) ([]*Cmd, []*Tmpl) {
			return []*Cmd{{K: "letc", Var: "w", Body: []*Cmd{txt("<i>"), pr(vr("v"))}}, pr(vr("w"))}, nil
		}},
		{"let-value", func(_, _ string) ([]*Cmd, []*Tmpl) {
			return []*Cmd{{K: "let", Var: "w", E: bin("+", vr("v"), S("<t>"))}, pr(vr("w"))}, nil
		}},
		{"msg-placeholder", func(_, _ string) ([]*Cmd, []*Tmpl) {
			return []*Cmd{{K: "msg", Body: []*Cmd{txt("a<b>"), pr(vr("v")), txt("</b>")}}}, nil
		}},
		{"param-content", func(_, tm string) ([]*Cmd, []*Tmpl) {
			return []*Cmd{{K: "call", Call: &CallSpec{Name: "other.show", Target: "other.show", Params: []CallParam{{Key: "w", Content: []*Cmd{txt("<i>"), pr(vr("v"))}}}}}}, []*Tmpl{showV(tm)}
		}},
		{"param-value", func(_, tm string) ([]*Cmd, []*Tmpl) {
			return []*Cmd{{K: "call", Call: &CallSpec{Name: "other.show", Target: "other.show", Params: []CallParam{{Key: "v", Value: vr("v")}}}}, pr(vr("v"))}, []*Tmpl{showV(tm)}
		}},
		{"data-all", func(_, tm string) ([]*Cmd, []*Tmpl) {
			return []*Cmd{pr(vr("v")), {K: "call", Call: &CallSpec{Name: "other.show", Target: "other.show", AllData: true}}, pr(vr("v"))}, []*Tmpl{showV(tm)}
		}},
		{"call-in-let", func(_, tm string) ([]*Cmd, []*Tmpl) {
			return []*Cmd{{K: "letc", Var: "w", Body: []*Cmd{{K: "call", Call: &CallSpec{Name: "other.show", Target: "other.show", AllData: true}}}}, pr(vr("w")), pr(vr("v"))}, []*Tmpl{showV(tm)}
		}},
		{"nested-calls", func(_, tm string) ([]*Cmd, []*Tmpl) {
			relay := &Tmpl{NS: "other", Name: "relay", Params: []Param{{"v", true}}, Body: []*Cmd{{K: "call", Call: &CallSpec{Name: ".show", Target: "other.show", AllData: true}}, pr(bin("?:", vr("v"), S("-")))}}
			return []*Cmd{{K: "call", Call: &CallSpec{Name: "other.relay", Target: "other.relay", AllData: true}}, pr(vr("v"))}, []*Tmpl{showV(tm), relay}
		}},
	}
	rvals := []data.Value{data.String("<"), data.String("&'\""), data.String("a"), data.String("O'R"), data.String("<b>&amp;"), data.Int(3), data.Null{}, data.List{data.String("<")}}
	for _, rt := range routes {
		for _, ns := range modes {
			for _, tm := range tmodes {
				for _, cns := range modes[:3] {
					for _, ctm := range tmodes[:3] {
						if !c.Mine() {
							continue
						}
						body, callees := rt.mk(cns, ctm)
						t := &Tmpl{NS: "esc", Name: "m", Params: []Param{{"v", false}}, Autoesc: tm, Body: body}
						f := &File{Name: "e.soy", NS: "esc", NSAttr: ns, Tmpls: []*Tmpl{t}}
						files := []*File{f}
						if callees != nil {
							files = append(files, &File{Name: "o.soy", NS: "other", NSAttr: cns, Tmpls: callees})
						}
						var ds []data.Map
						for _, v := range rvals {
							ds = append(ds, data.Map{"v": v})
						}
						order := []int{0}
						if len(files) == 2 {
							order = []int{0, 1}
						}
						res := runBundle(files, order, "esc.m", ds, nil, 5000000)
						key := fmt.Sprintf("%s|%s|%s|%s|%s", rt.name, ns, tm, cns, ctm)
						fm := map[string]string{}
						for _, ff := range files {
							fm[ff.Name] = ff.src()
						}
						cs := c03case{Files: fm, Route: rt.name, NS: ns, TM: tm, Chain: "callee:" + cns + "/" + ctm}
						if res.v.Exhausted || res.v.Panic != nil || res.compileErr != "" {
							c.Observe(key, "bad")
							c.Violate("renders", "panic", "bad:"+key, cs, "renders", fmt.Sprintf("hang=%v panic=%v compile=%s", res.v.Exhausted, res.v.Panic, res.compileErr))
							continue
						}
						obs := ""
						for i, d := range ds {
							x := newRefExec(files, nil)
							want, st := x.run("esc.m", d)
							got := normEntities(res.outs[i])
							obs += got + "|"
							if st != stOK {
								continue
							}
							val, _ := refStr(d["v"])
							cs.Value = fmt.Sprintf("%q", val)
							if res.errs[i] != "" {
								c.Violate("renders", "mismatch", "err:"+key, cs, want, res.errs[i])
							} else if got != want {
								c.Violate("effective autoescape mode is re-derived per template and applied to every print", "mismatch", "route:"+rt.name+":"+effKey(ns, tm)+">"+effKey(cns, ctm), cs, want, got)
							}
						}
						c.Observe(key, obs)
						c.Nontrivial()
						c.Count("renders", int64(len(ds)))
					}
				}
			}
		}
	}
}

func chainHasTruncateAfterEscape(ch []dirSpec) bool {
	seenEsc := false
	for _, d := range ch {
		if d.escaping {
			seenEsc = true
		} else if seenEsc && strings.HasPrefix(d.src, "|truncate") {
			return true // truncating escaped text may cut a character reference: unspecified
		}
	}
	return false
}

func effKey(ns, tm string) string {
	if tm != "" {
		return "t=" + tm
	}
	if ns != "" {
		return "n=" + ns
	}
	return "default"
}

// valClass abstracts a value for signatures.
func valClass(s string) string {
	set := ""
	for _, ch := range []string{"&", "<", ">", "\"", "'"} {
		if strings.Contains(s, ch) {
			set += ch
		}
	}
	l := "short"
	if len(s) > 10 {
		l = "long"
	}
	if len(s) == 1 {
		l = "1byte"
	}
	return l + "[" + set + "]"
}
