package main

import (
	"bytes"
	"encoding/json"
	"fmt"
	"github.com/robfig/soy/soyhtml"
	"regexp"
	"sort"
	"strconv"
	"strings"
	"unicode/utf8"

	"github.com/robertkrimen/otto/parser"
	"github.com/robfig/soy"
	"github.com/robfig/soy/data"
	"github.com/robfig/soy/soyjs"
	"github.com/robfig/soy/template"
	"verif/vrt"
)

func init() { register("C14", checkC14) }

type c14case struct {
	Files   map[string]string `json:"files"`
	Literal string            `json:"literal,omitempty"`
	Origin  string            `json:"origin,omitempty"`
	Format  string            `json:"formatter,omitempty"`
}

var reImport = regexp.MustCompile(`(?m)^import \{[^}]*\} from '[^']*';\s*$`)

// es6ToScript removes the module keywords the ES6 formatter adds, so that an ES5 parser can
// check everything else.
func es6ToScript(src string) string {
	src = reImport.ReplaceAllString(src, "")
	return strings.ReplaceAll(src, "\nexport function ", "\nfunction ")
}

func jsParses(src string) error {
	_, err := parser.ParseFile(nil, "", src, 0)
	return err
}

// genJS compiles the sources and generates JavaScript for every file under both formatters.
func genJS(names []string, sources map[string]string, globals data.Map) (reg *template.Registry, es5, es6 map[string]string, cerr, gerr error, v vrt.Verdict) {
	es5, es6 = map[string]string{}, map[string]string{}
	v = vrt.Run(vrt.Options{Fuel: 100000000}, func() {
		b := soy.NewBundle()
		if len(globals) > 0 {
			b = b.AddGlobalsMap(globals)
		}
		for _, n := range names {
			b = b.AddTemplateString(n, sources[n])
		}
		reg, cerr = b.Compile()
		if cerr != nil {
			return
		}
		for _, f := range reg.SoyFiles {
			var b5, b6 bytes.Buffer
			if err := soyjs.Write(&b5, f, soyjs.Options{}); err != nil {
				gerr = err
				return
			}
			if err := soyjs.Write(&b6, f, soyjs.Options{Formatter: soyjs.ES6Formatter{}}); err != nil {
				gerr = err
				return
			}
			es5[f.Name], es6[f.Name] = b5.String(), b6.String()
		}
	})
	return
}

func checkC14(c *Ctx) {
	// ---- Part 1: literal carriers: one literal L in each position a template string can originate from ----
	type origin struct {
		name string
		ok   func(L string) bool
		mk   func(L string) (body string, globals data.Map)
	}
	noBrace := func(L string) bool { return !strings.ContainsAny(L, "{}") }
	origins := []origin{
		{"raw text via literal", func(L string) bool { return !strings.Contains(L, "{/literal}") && L != "" }, func(L string) (string, data.Map) {
			return "{literal}" + L + "{/literal}", nil
		}},
		{"string literal", func(L string) bool { return true }, func(L string) (string, data.Map) {
			return "{" + quoteSoy(L) + "|noAutoescape}", nil
		}},
		{"string literal in expression", func(L string) bool { return true }, func(L string) (string, data.Map) {
			return "{(true ? " + quoteSoy(L) + " : 'x') + ''|noAutoescape}", nil
		}},
		{"map key", func(L string) bool { return L != "" }, func(L string) (string, data.Map) {
			return "{foreach $k in keys([" + quoteSoy(L) + ": 1])}{$k|noAutoescape}{/foreach}", nil
		}},
		{"map value by key", func(L string) bool { return L != "" }, func(L string) (string, data.Map) {
			return "{[" + quoteSoy(L) + ": 'v'][" + quoteSoy(L) + "]}", nil
		}},
		// a computed index inside another expression position (the generator renders sub-expressions while
		// the enclosing statement is being built)
		{"map lookup in a let value", func(L string) bool { return L != "" }, func(L string) (string, data.Map) {
			return "{let $mm: [" + quoteSoy(L) + ": " + quoteSoy(L) + "] /}{let $v: 'pre' + $mm[" + quoteSoy(L) + "] /}{$v|noAutoescape}", nil
		}},
		{"nested map lookups in a param value", func(L string) bool { return L != "" }, func(L string) (string, data.Map) {
			return "{let $mm: [" + quoteSoy(L) + ": " + quoteSoy(L) + "] /}{let $kk: ['k': " + quoteSoy(L) + "] /}{call .echo}{param p: 'pre' + $mm[$kk['k']] /}{/call}", nil
		}},
		{"css name", func(L string) bool {
			return noBrace(L) && strings.TrimSpace(L) == L && L != "" && !strings.Contains(L, ",") && !strings.ContainsAny(L, "\n\r")
		}, func(L string) (string, data.Map) { return "{css " + L + "}", nil }},
		{"css name after a prefix expression", func(L string) bool {
			return noBrace(L) && strings.TrimSpace(L) == L && L != "" && !strings.Contains(L, ",") && !strings.ContainsAny(L, "\n\r")
		}, func(L string) (string, data.Map) { return "{css 'pre', " + L + "}", nil }},
		{"msg text", func(L string) bool {
			return noBrace(L) && strings.TrimSpace(L) == L && L != "" && !strings.ContainsAny(L, "\n\r\t") && !strings.Contains(L, "//") && !strings.Contains(L, "/*") && !strings.Contains(L, "  ")
		}, func(L string) (string, data.Map) { return "{msg desc=\"d\"}" + L + "{/msg}", nil }},
		{"raw template text", func(L string) bool {
			return noBrace(L) && strings.TrimSpace(L) == L && L != "" && !strings.ContainsAny(L, "\n\r\t") && !strings.Contains(L, "//") && !strings.Contains(L, "/*")
		}, func(L string) (string, data.Map) { return L, nil }},
		{"global value", func(L string) bool { return true }, func(L string) (string, data.Map) {
			return "{G.lit|noAutoescape}", data.Map{"G.lit": data.String(L)}
		}},
		{"switch case label", func(L string) bool { return true }, func(L string) (string, data.Map) {
			return "{switch " + quoteSoy(L) + "}{case 'zz'}no{case " + quoteSoy(L) + "}{" + quoteSoy(L) + "|noAutoescape}{default}default{/switch}", nil
		}},
		{"param value", func(L string) bool { return true }, func(L string) (string, data.Map) {
			return "{call .echo}{param p: " + quoteSoy(L) + " /}{/call}", nil
		}},
		// text that is not output at all: whatever the generator does with a description (a comment in
		// the generated code, say), the code stays a valid script that returns the message
		{"msg description", func(L string) bool { return utf8.ValidString(L) && len(L) < 200 }, func(L string) (string, data.Map) {
			return "{msg desc=" + strconv.Quote(L) + " meaning=" + strconv.Quote("m"+L) + "}M{/msg}", nil
		}},
	}
	var lits []string
	for b := 1; b < 128; b++ {
		lits = append(lits, string([]byte{byte(b)}))
	}
	special := []string{"'", "\"", "\\", "\n", "\r", "\u2028", "\u2029", "<", "/"}
	for _, a := range special {
		for _, b := range special {
			lits = append(lits, a+b, "x"+a+b+"y")
		}
	}
	lits = append(lits, "", "</script>", "<!--", "]]>", "é", "日本", "\u0085", "\ufeff", "a\\", "\\'", "\\\"", "\\n", "'+alert(1)+'", "\"+x+\"", "${x}", "`", "a'b\"c\\d", strings.Repeat("ab'\"\\\n<", 1500), "\x7f", "\x01\x02", "line1\nline2", "tab\there",
		// characters outside the basic plane and characters that are not printable (an escaper must spell them so that the engine reads them back)
		// text that reads like a JavaScript escape sequence
		"\\u003C", "\\u003E", "\\u0026", "\\u003D", "\\u0027", "\\u0022", "\\x3C", "\\x3c", "a\\u003Cb\\u003E", "\\\\u003C", "\\u2028", "\\074", "\\u{3C}",
		"\U0001F600", "\U000E0001", "a\U000F0000b", "\U0010FFFF", "\u200b", "\u00ad", "\ufffe", "x\u0600y", "\U0001D11E\U000E0020")
	// long non-ASCII runs at shifting byte offsets (a generator that chunks long text must not cut a character)
	for off := 0; off < 4; off++ {
		pre := strings.Repeat("a", off)
		lits = append(lits, pre+strings.Repeat("é", 4500), pre+strings.Repeat("日", 3000), pre+strings.Repeat("😀", 2200), pre+strings.Repeat("ab é", 3000))
	}
	for _, o := range origins {
		for _, L := range lits {
			if !o.ok(L) {
				continue
			}
			if !c.Mine() {
				continue
			}
			body, globals := o.mk(L)
			src := "{namespace lit.carrier}\n/** */\n{template .t}\n" + body + "\n{/template}\n/** @param p */\n{template .echo}\n{$p|noAutoescape}\n{/template}\n"
			cs := c14case{Files: map[string]string{"c.soy": src}, Literal: clipq(L), Origin: o.name}
			key := o.name + "\x00" + L
			sig := o.name + ":" + litClass(L)
			reg, es5, es6, cerr, gerr, v := genJS([]string{"c.soy"}, map[string]string{"c.soy": src}, globals)
			_ = reg
			switch {
			case v.Panic != nil || v.Exhausted:
				c.Observe(key, "panic")
				c.Violate("generation returns", "panic", "panic:"+sig, cs, "JavaScript", fmt.Sprint(v.Panic))
				continue
			case cerr != nil:
				c.Observe(key, "rejected by the compiler")
				c.Count("carrier_rejected_by_compiler", 1)
				continue
			case gerr != nil:
				c.Observe(key, "generator error")
				c.Nontrivial()
				c.Violate("JavaScript is generated for every accepted bundle", "mismatch", "jsgen:"+sig, cs, "JavaScript", gerr.Error())
				continue
			}
			c.Nontrivial()
			js := es5["c.soy"]
			if err := jsParses(js); err != nil {
				c.Observe(key, "syntax error")
				cs.Format = "ES5"
				c.Violate("the generated JavaScript is a syntactically valid script", "mismatch", "syntax:"+sig, cs, "valid script", err.Error()+"\n"+clip(js))
				continue
			}
			if err := jsParses(es6ToScript(es6["c.soy"])); err != nil {
				c.Observe(key, "syntax error (es6)")
				cs.Format = "ES6"
				c.Violate("the generated JavaScript is a syntactically valid script", "mismatch", "syntax-es6:"+sig, cs, "valid script", err.Error()+"\n"+clip(es6["c.soy"]))
				continue
			}
			vm, err := newJSVM()
			if err != nil {
				panic(vrt.InfraError{Msg: "otto: " + err.Error()})
			}
			if _, err := jsRun(vm, js); err != nil {
				c.Observe(key, "load error")
				c.Violate("the generated JavaScript evaluates", "mismatch", "load:"+sig, cs, "loads", err.Error())
				continue
			}
			if tv, err := jsRun(vm, "typeof lit.carrier.t + ' ' + typeof lit.carrier.echo"); err != nil || tv.String() != "function function" {
				c.Observe(key, "no function")
				c.Violate("one function per template under its qualified name", "mismatch", "nofunc:"+sig, cs, "function function", fmt.Sprint(tv, err))
				continue
			}
			out, err := jsCallTemplate(vm, "lit.carrier.t", "{}", "")
			c.Observe(key, out)
			if err != nil {
				c.Violate("calling the template returns", "mismatch", "call:"+sig, cs, clipq(L), err.Error())
			} else if o.name == "map lookup in a let value" || o.name == "nested map lookups in a param value" {
				if out != "pre"+L && utf8.ValidString(L) {
					c.Violate("every string that originates in the template denotes exactly the original characters", "mismatch", "literal:"+sig, cs, clipq("pre"+L), clipq(out))
				}
			} else if o.name == "msg description" {
				if out != "M" {
					c.Violate("every string that originates in the template denotes exactly the original characters", "mismatch", "literal:"+sig, cs, "M", clipq(out))
				}
			} else if o.name == "css name after a prefix expression" {
				if out != "pre-"+L && utf8.ValidString(L) {
					c.Violate("every string that originates in the template denotes exactly the original characters", "mismatch", "literal:"+sig, cs, clipq("pre-"+L), clipq(out))
				}
			} else if out != L && utf8.ValidString(L) {
				c.Violate("every string that originates in the template denotes exactly the original characters", "mismatch", "literal:"+sig, cs, clipq(L), clipq(out))
			} else if out != L {
				c.Count("non_ascii_literal_not_compared", 1)
			}
			if c.Index()%499 == 0 {
				c.Sample(map[string]any{"origin": o.name, "literal": clipq(L), "returned": clipq(out)})
			}
		}
	}
	// ---- Part 2: names with several segments ----
	for _, ns := range []string{"a", "a.b", "a.b.c.d", "long_name.with_underscores.x1", "A.B"} {
		for _, tn := range []string{"t", "two_words", "camelCase", "t1"} {
			if !c.Mine() {
				continue
			}
			src := "{namespace " + ns + "}\n/** */\n{template ." + tn + "}\nx{call ." + tn + "2/}\n{/template}\n/** */\n{template ." + tn + "2}\ny\n{/template}\n"
			cs := c14case{Files: map[string]string{"n.soy": src}, Origin: "names"}
			_, es5, es6, cerr, gerr, _ := genJS([]string{"n.soy"}, map[string]string{"n.soy": src}, nil)
			key := "names\x00" + ns + "." + tn
			if cerr != nil || gerr != nil {
				c.Observe(key, "error")
				c.Violate("names with several segments compile", "mismatch", "names:"+ns, cs, "JavaScript", fmt.Sprint(cerr, gerr))
				continue
			}
			c.Nontrivial()
			vm, _ := newJSVM()
			ok := "?"
			if _, err := jsRun(vm, es5["n.soy"]); err != nil {
				ok = "load error: " + err.Error()
			} else if tv, err := jsRun(vm, "typeof "+ns+"."+tn+" + ':' + "+ns+"."+tn+"({})"); err != nil {
				ok = "call error: " + err.Error()
			} else {
				ok = tv.String()
			}
			c.Observe(key, ok)
			if ok != "function:xy" {
				c.Violate("one function per template under the template's qualified name", "mismatch", "names:"+ns+"."+tn, cs, "function:xy", ok)
			}
			if err := jsParses(es6ToScript(es6["n.soy"])); err != nil {
				c.Violate("the ES6 output is syntactically valid", "mismatch", "names-es6:"+ns, cs, "valid", err.Error())
			}
		}
	}
	// ---- Part 2b: Soy variable and param names that are JavaScript reserved words or names the
	// generator itself uses: the generated identifiers must stay legal and must not capture them ----
	idents := []string{"class", "default", "var", "new", "this", "function", "return", "delete", "in", "typeof", "void", "with", "switch", "case", "if", "else", "for", "while", "do",
		"break", "continue", "try", "catch", "finally", "throw", "instanceof", "null", "true", "false", "undefined", "enum", "export", "import", "super", "const", "let", "static", "yield", "await",
		"implements", "interface", "package", "private", "protected", "public", "arguments", "eval", "NaN", "Infinity",
		"output", "opt_data", "opt_ijData", "opt_sb", "opt_ignored", "soy", "goog", "data", "ijData", "msg", "msg_s", "MSG_UNNAMED", "x1", "output1", "self", "window", "Object", "String", "Array"}
	for _, id := range idents {
		for _, form := range []string{"let-value", "let-block", "foreach", "for-range", "param", "all"} {
			if !c.Mine() {
				continue
			}
			var body, doc, want string
			switch form {
			case "let-value":
				body, want = "{let $"+id+": 'v' /}[{$"+id+"}]", "[v]"
			case "let-block":
				body, want = "{let $"+id+"}b{/let}[{$"+id+"}]", "[b]"
			case "foreach":
				body, want = "{foreach $"+id+" in ['p', 'q']}[{$"+id+"}]{/foreach}", "[p][q]"
			case "for-range":
				body, want = "{for $"+id+" in range(2)}[{$"+id+"}]{/for}", "[0][1]"
			case "param":
				doc, body, want = " * @param "+id+"\n", "[{$"+id+"}]{call .inner}{param "+id+": $"+id+" + 'c' /}{/call}", "[P]<Pc>"
			case "all":
				doc, body, want = " * @param "+id+"\n", "[{$"+id+"}]{let $"+id+": $"+id+" + 'l' /}[{$"+id+"}]{foreach $"+id+" in [$"+id+" + 'f']}[{$"+id+"}]{/foreach}[{$"+id+"}]", "[P][Pl][Plf][Pl]"
			}
			src := "{namespace idn}\n/**\n" + doc + " */\n{template .t}\n" + body + "\n{/template}\n/** @param " + id + " */\n{template .inner}\n<{$" + id + "}>\n{/template}\n"
			cs := c14case{Files: map[string]string{"i.soy": src}, Origin: "identifier " + form}
			key := "ident\x00" + form + "\x00" + id
			reg, es5, es6, cerr, gerr, _ := genJS([]string{"i.soy"}, map[string]string{"i.soy": src}, nil)
			if cerr != nil {
				// the compiler may refuse a name (none does today); nothing is generated then.
				c.Observe(key, "rejected")
				c.Count("identifier_rejected_by_compiler", 1)
				continue
			}
			c.Nontrivial()
			if gerr != nil {
				c.Observe(key, "generator error")
				c.Violate("JavaScript is generated for every accepted bundle", "mismatch", "ident-jsgen:"+form, cs, "JavaScript", gerr.Error())
				continue
			}
			var gobuf bytes.Buffer
			if reg != nil {
				if err := soyhtml.NewTofu(reg).Render(&gobuf, "idn.t", map[string]interface{}{id: "P"}); err != nil || gobuf.String() != want {
					// the Go side is not this property's business; keep the JS oracle independent of it.
					c.Count("identifier_go_render_differs", 1)
				}
			}
			vm, _ := newJSVM()
			got := ""
			if _, err := jsRun(vm, es5["i.soy"]); err != nil {
				got = "load error: " + err.Error()
			} else {
				d, _ := json.Marshal(map[string]string{id: "P"})
				out, err := jsCallTemplate(vm, "idn.t", string(d), "")
				if err != nil {
					got = "call error: " + err.Error()
				} else {
					got = out
				}
			}
			c.Observe(key, got)
			if got != want {
				c.Violate("the generated JavaScript is a syntactically valid script whose identifiers denote the template's variables", "mismatch", "ident:"+form+":"+identClass(id), cs, want, got)
			}
			if err := jsParses(es6ToScript(es6["i.soy"])); err != nil {
				c.Violate("the ES6 output is syntactically valid", "mismatch", "ident-es6:"+form+":"+identClass(id), cs, "valid", err.Error())
			}
		}
	}
	// ---- Part 2c: variables named like the names the generator derives for a loop (<var>List, <var>Index,
	// <var>Limit ...) or for a sibling variable with a numeric suffix ----
	for li, lb := range []struct{ body, want string }{
		{"{foreach $it in ['p', 'q']}{let $itIndex: 'v' /}{let $itList: 'w' /}{let $itLimit: 'z' /}{let $itListLen: 'y' /}[{$it}{$itIndex}{$itList}{$itLimit}{$itListLen}]{/foreach}", "[pvwzy][qvwzy]"},
		{"{foreach $it in ['p', 'q', 'r']}{let $itIndex: index($it) + 10 /}[{$it}{$itIndex}]{/foreach}", "[p10][q11][r12]"},
		{"{for $it in range(3)}{let $itLimit: 'z' /}{let $itIncrement: 5 /}{let $itInit: 7 /}[{$it}{$itLimit}{$itIncrement}{$itInit}]{/for}", "[0z57][1z57][2z57]"},
		{"{let $it1: 'a' /}{let $it: 'b' /}{foreach $it2 in ['c']}{let $it: 'd' /}[{$it1}{$it}{$it2}]{/foreach}[{$it1}{$it}]", "[adc][ab]"},
		{"{let $itList}L{/let}{foreach $it in ['p']}[{$it}{$itList}]{/foreach}{let $param}P{/let}{call .inner}{param x}[{$param}]{/param}{/call}", "[pL]<[P]>"},
	} {
		if !c.Mine() {
			continue
		}
		src := "{namespace idn}\n/** */\n{template .t}\n" + lb.body + "\n{/template}\n/** @param x */\n{template .inner}\n<{$x|noAutoescape}>\n{/template}\n"
		cs := c14case{Files: map[string]string{"i.soy": src}, Origin: "loop-derived identifier"}
		key := fmt.Sprintf("loop-ident\x00%d", li)
		_, es5, es6, cerr, gerr, _ := genJS([]string{"i.soy"}, map[string]string{"i.soy": src}, nil)
		if cerr != nil || gerr != nil {
			c.Observe(key, "error")
			c.Violate("JavaScript is generated for every accepted bundle", "mismatch", "loop-ident-jsgen", cs, "JavaScript", fmt.Sprint(cerr, gerr))
			continue
		}
		c.Nontrivial()
		vm, _ := newJSVM()
		got := ""
		if _, err := jsRun(vm, es5["i.soy"]); err != nil {
			got = "load error: " + err.Error()
		} else if out, err := jsCallTemplate(vm, "idn.t", "{}", ""); err != nil {
			got = "call error: " + err.Error()
		} else {
			got = out
		}
		c.Observe(key, got)
		if got != lb.want {
			c.Violate("the generated JavaScript is a syntactically valid script whose identifiers denote the template's variables", "mismatch", fmt.Sprintf("loop-ident:%d", li), cs, lb.want, got)
		}
		if err := jsParses(es6ToScript(es6["i.soy"])); err != nil {
			c.Violate("the ES6 output is syntactically valid", "mismatch", "loop-ident-es6", cs, "valid", err.Error())
		}
	}
	// ---- Part 3: every bundle of the C02 grammar (no common-subset filter): syntax and functions ----
	lib := libFiles()
	nb := 0
	enumBodies(c.Thorough(), func(body []*Cmd, variant int) {
		nb++
		if !c.Thorough() && nb%3 != 0 {
			return
		}
		if !c.Mine() {
			return
		}
		if hasMsgViolation(body) {
			return
		}
		names := map[string]bool{}
		usedNames(body, names)
		delete(names, "ij")
		var pn []string
		for n := range names {
			pn = append(pn, n)
		}
		sort.Strings(pn)
		var params []Param
		for _, n := range pn {
			params = append(params, Param{Name: n, Optional: true})
		}
		t := &Tmpl{NS: "app.main", Name: "entry", Params: params, Body: body, Header: variant&1 == 1}
		main := &File{Name: "main.soy", NS: "app.main", Aliases: []string{"lib.deep"}, Tmpls: []*Tmpl{t}}
		if len(checkRules(withLib(main, lib))) > 0 {
			return
		}
		srcs := map[string]string{"main.soy": main.src()}
		_, es5, es6, cerr, gerr, v := genJS(libSrcs(srcs, lib), srcs, nil)
		cs := c14case{Files: map[string]string{"main.soy": srcs["main.soy"]}, Origin: "C02 grammar"}
		key := "bundle\x00" + srcs["main.soy"]
		sig := "bundle:" + skCmds(body)
		switch {
		case v.Panic != nil || v.Exhausted:
			c.Observe(key, "panic")
			c.Violate("generation returns", "panic", "panic:"+sig, cs, "JavaScript", fmt.Sprint(v.Panic))
			return
		case cerr != nil:
			c.Observe(key, "rejected")
			return
		case gerr != nil:
			c.Observe(key, "generator error")
			c.Nontrivial()
			c.Violate("JavaScript is generated for every accepted bundle", "mismatch", "jsgen:"+sig, cs, "JavaScript", gerr.Error())
			return
		}
		c.Nontrivial()
		status := "ok"
		for _, n := range []string{"main.soy", "lib.soy", "sub.soy"} {
			if err := jsParses(es5[n]); err != nil {
				status = "syntax error"
				c.Violate("the generated JavaScript is a syntactically valid script", "mismatch", "syntax:"+sig, cs, "valid script", n+": "+err.Error()+"\n"+clip(es5[n]))
			}
			if err := jsParses(es6ToScript(es6[n])); err != nil {
				status = "syntax error"
				c.Violate("the generated JavaScript is a syntactically valid script", "mismatch", "syntax-es6:"+sig, cs, "valid script", n+": "+err.Error())
			}
		}
		if status == "ok" && c.Index()%5 == 0 {
			vm, _ := newJSVM()
			jsRun(vm, es5["lib.soy"])
			jsRun(vm, es5["sub.soy"])
			if _, err := jsRun(vm, es5["main.soy"]); err != nil {
				status = "load error"
				c.Violate("the generated JavaScript evaluates", "mismatch", "load:"+sig, cs, "loads", err.Error())
			} else if tv, err := jsRun(vm, "typeof app.main.entry + typeof lib.deep.show + typeof lib.deep.rec + typeof lib.deep.sub.leaf"); err != nil || tv.String() != "functionfunctionfunctionfunction" {
				status = "no function"
				c.Violate("one function per template under its qualified name", "mismatch", "nofunc:"+sig, cs, "functions", fmt.Sprint(tv, err))
			}
		}
		c.Observe(key, status)
	})
}

func litClass(L string) string {
	if len(L) > 100 {
		return "long"
	}
	if len(L) == 1 {
		if L[0] < 0x20 || L[0] == 0x7f {
			return fmt.Sprintf("control %q", L)
		}
		if strings.ContainsAny(L, "'\"\\<>/&") {
			return fmt.Sprintf("%q", L)
		}
		return "1 char"
	}
	cls := ""
	for _, ch := range []string{"'", "\"", "\\", "\n", "\r", "\u2028", "\u2029", "<", "/"} {
		if strings.Contains(L, ch) {
			cls += fmt.Sprintf("%q", ch)
		}
	}
	if !isASCII(L) {
		cls += " non-ascii"
	}
	return strings.TrimSpace(cls)
}

func identClass(id string) string {
	switch id {
	case "output", "opt_data", "opt_ijData", "opt_sb", "opt_ignored", "soy", "goog", "data", "ijData", "msg", "msg_s", "MSG_UNNAMED", "x1", "output1":
		return "generator name"
	case "self", "window", "Object", "String", "Array", "arguments", "eval", "NaN", "Infinity", "undefined":
		return "global name"
	}
	return "reserved word"
}
