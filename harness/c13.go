package main

import (
	"bytes"
	"fmt"
	"sort"
	"strings"

	"github.com/robfig/soy"
	"github.com/robfig/soy/ast"
	"github.com/robfig/soy/data"
	"github.com/robfig/soy/soyhtml"
	"github.com/robfig/soy/soyjs"
	"github.com/robfig/soy/soymsg"
	"github.com/robfig/soy/template"
	"verif/vrt"
)

func init() { register("C13", checkC13) }

type c13case struct {
	Files    map[string]string `json:"files"`
	Order    []string          `json:"insertion_order"`
	MapOrder []int             `json:"map_order_choices,omitempty"`
}

// reversedBundle translates every non-plural message to its parts in reverse order.
func reversedBundleFor(reg *template.Registry) *identityBundle {
	b := &identityBundle{msgs: map[uint64]*soymsg.Message{}}
	for _, t := range reg.Templates {
		collectMsgs(t.Node, func(m *ast.MsgNode) {
			if msg := translatedMessage(m, reversePH); msg != nil {
				b.msgs[m.ID] = msg
			}
		})
	}
	return b
}

// snippets: features of file A whose processing iterates Go maps or collects sets.
func c13Snippets() []string {
	return []string{
		"{call b.x}{param p: $a /}{/call}{call c.y data=\"all\"/}",
		"{call c.y}{param q}z{$a}{/param}{/call}{call b.x/}{call .local/}{call b.X/}{call c.Y/}",
		"{$a|truncate:3}{$a|insertWordBreaks:2}{$a|changeNewlineToBr}{$a|escapeUri}{$x|noAutoescape|truncate:8}{$x|id|truncate:4|changeNewlineToBr}",
		"{length($l)}{keys($m)}{augmentMap($m, ['z': 1, 'y': 2])}{round(1.5)}{max(1, 2)}{strContains($x, 'x')}",
		"{['k3': 3, 'k1': 1, 'k2': ['n2': 2, 'n1': 1], 'k0': $a]}",
		"{let $mm: ['b': 2, 'a': 1, 'c': $a] /}{$mm}{$mm.a}{foreach $k in keys(['only': 1])}{$k}{/foreach}",
		"{msg desc=\"d\"}{$x}{$a.x}{$x_1}<b>{$a}</b><a href=\"u\">l</a>{/msg}",
		"{msg desc=\"e\" meaning=\"m\"}Hello {$a} and {$x} and <b>{$a.x}</b>{/msg}{msg desc=\"f\"}{plural $n}{case 0}none{case 1}one {$x}{default}{$n} many {$a}{/plural}{/msg}",
		"{css $a, suffix}{css plain}{G_ONE}{G.two}{G_MAP}",
		"{switch $n}{case 1, 2}{$x}{case 3}t{default}d{/switch}{if $a}{$x_1}{elseif $n}e{else}f{/if}",
		"{foreach $i in $l}{$i}{index($i)}{isLast($i)}{ifempty}e{/foreach}{for $j in range(2)}{$j}{/for}",
		"{$a ?: 'd'}{$n ? $x : $x_1}{not $a}{-$n}{$m['k']}{$m?.k}{$l[0]}{$ij.inj}",
		// a map literal whose items all fail at render time: which failure is reported must not
		// depend on the order in which Go visits the literal's items
		"{if $n == 0}{['k3': $a.p.q, 'k1': $x.p.q, 'k2': $l[3].z, 'k0': $m.j.k.l]}{/if}",
	}
}

func c13Files(s1, s2 string, errs int) map[string]string {
	docA := "/**\n * @param? a\n * @param? l\n * @param? m\n * @param? n\n * @param? x\n * @param? x_1\n */\n"
	useAll := "{if false}{$a}{$l}{$m}{$n}{$x}{$x_1}{/if}"
	a := "{namespace a}\n" + docA + "{template .main}\n" + s1 + s2 + useAll + "\n{/template}\n/** */\n{template .local}\nlocal\n{/template}\n"
	b := "{namespace b}\n/** @param? p */\n{template .x}\n[{$p ?: 'np'}]{call c.y/}\n{/template}\n" +
		// names that differ only in case are different templates
		"/** */\n{template .X}\nupper x\n{/template}\n" +
		// header params and no soydoc: the registry rewrites this template's tree when it is added
		"{template .hdr}\n{@param? h: ?}\n<{$h ?: 'nh'}>\n{/template}\n"
	cc := "{namespace c}\n/**\n * @param? q\n * @param? a\n */\n{template .y}\n({$q ?: 'nq'}{$a ?: ''})\n{/template}\n" +
		"/** */\n{template .Y}\nupper y\n{/template}\n" +
		// compiles and renders, but has no JavaScript form (range() as a value): generation of this file
		// fails, in the middle of the sequence of emissions, always with the same error
		"/** */\n{template .nojs}\n{length(range(2))}\n{/template}\n"
	if errs&1 != 0 {
		b += "/** */\n{template .bad}\n{if}\n{/template}\n" // syntax error in b
	}
	if errs&2 != 0 {
		cc += "/** */\n{template .bad}\n{['k2': $undeclared2, 'k1': $undeclared1, 'k3': ['n': $undeclared4, 'm': $undeclared3]]}\n{/template}\n" // data-ref errors in c
	}
	if errs&4 != 0 {
		a += "/** */\n{template .bad}\n{call b.missing/}\n{/template}\n" // unknown callee in a
	}
	return map[string]string{"a.soy": a, "b.soy": b, "c.soy": cc}
}

// c13Run compiles, renders and generates JS; returns one observation string per aspect.
func c13Run(files map[string]string, order []string, recompile bool) map[string]string {
	// every pipeline execution starts from the package-level state of a fresh process; what a
	// first use leaves behind is observed by the repetitions at the end.
	restorePackageState()
	obs := map[string]string{}
	var firstBundle *soy.Bundle
	compile := func() (*template.Registry, error) {
		b := soy.NewBundle().AddGlobalsMap(data.Map{"G_ONE": data.Int(1), "G.two": data.String("two"), "G_MAP": data.Map{"q": data.Int(1), "p": data.List{data.Int(2)}}})
		for _, n := range order {
			b = b.AddTemplateString(n, files[n])
		}
		if firstBundle == nil {
			firstBundle = b
		}
		return b.Compile()
	}
	reg, err := compile()
	if err != nil {
		obs["compile"] = "error: " + err.Error()
		// a second compilation of the same sources in the same process reports the same error
		if !recompile {
			return obs
		}
		if _, err2 := compile(); err2 != nil {
			obs["again:compile"] = "error: " + err2.Error()
		} else {
			obs["again:compile"] = "ok"
		}
		if _, err3 := firstBundle.Compile(); err3 != nil {
			obs["again3:compile"] = "error: " + err3.Error()
		} else {
			obs["again3:compile"] = "ok"
		}
		return obs
	}
	obs["compile"] = "ok"
	var ids []string
	for _, t := range reg.Templates {
		collectMsgs(t.Node, func(m *ast.MsgNode) {
			ids = append(ids, fmt.Sprintf("%s:%d:%s", t.Node.Name, m.ID, soymsg.PlaceholderString(m)))
		})
	}
	sort.Strings(ids)
	obs["msgs"] = strings.Join(ids, "\n")
	tofu := soyhtml.NewTofu(reg)
	d := data.Map{"a": data.Map{"x": data.String("ax")}, "l": data.List{data.Int(1), data.Int(2)}, "m": data.Map{"k": data.String("v"), "j": data.Int(1)}, "n": data.Int(1), "x": data.String("X"), "x_1": data.String("X1")}
	d2 := data.Map{"a": data.String("long a\nvalue"), "l": data.List{}, "m": data.Map{}, "n": data.Int(0), "x": data.String("<x>")}
	rev := reversedBundleFor(reg)
	for di, dd := range []data.Map{d, d2} {
		for _, withMsgs := range []bool{false, true} {
			var buf bytes.Buffer
			r := tofu.NewRenderer("a.main").Inject(data.Map{"inj": data.String("I")})
			if withMsgs {
				r = r.WithMessages(rev)
			}
			err := r.Execute(&buf, dd)
			obs[fmt.Sprintf("render data%d msgs=%v", di, withMsgs)] = buf.String() + errClass(err)
		}
	}
	for _, f := range reg.SoyFiles {
		for _, cfg := range []struct {
			name string
			opt  soyjs.Options
		}{{"es5", soyjs.Options{}}, {"es6", soyjs.Options{Formatter: soyjs.ES6Formatter{}}}, {"es5+msgs", soyjs.Options{Messages: rev}}, {"es6+msgs", soyjs.Options{Formatter: soyjs.ES6Formatter{}, Messages: rev}}} {
			var buf bytes.Buffer
			err := soyjs.Write(&buf, f, cfg.opt)
			obs["js "+cfg.name+" "+f.Name] = buf.String() + errClass(err)
		}
	}
	// repetitions within the process: a second emission and a second render must be byte-identical.
	for _, f := range reg.SoyFiles {
		var buf bytes.Buffer
		err := soyjs.Write(&buf, f, soyjs.Options{})
		obs["again:js es5 "+f.Name] = buf.String() + errClass(err)
	}
	{
		var buf bytes.Buffer
		err := tofu.NewRenderer("a.main").Inject(data.Map{"inj": data.String("I")}).Execute(&buf, d)
		obs["again:render data0 msgs=false"] = buf.String() + errClass(err)
	}
	// a second compilation of the same sources in the same process: same decision, same output.
	if !recompile {
		return obs
	}
	if reg2, err := compile(); err != nil {
		obs["again:compile"] = "error: " + err.Error()
	} else {
		obs["again:compile"] = "ok"
		var buf bytes.Buffer
		err := soyhtml.NewTofu(reg2).NewRenderer("a.main").Inject(data.Map{"inj": data.String("I")}).Execute(&buf, d)
		obs["again2:render data0 msgs=false"] = buf.String() + errClass(err)
	}
	// ... and compiling the very same Bundle value once more (a server compiles one bundle to Tofu and
	// again for the JavaScript generator): same decision.
	if _, err := firstBundle.Compile(); err != nil {
		obs["again3:compile"] = "error: " + err.Error()
	} else {
		obs["again3:compile"] = "ok"
	}
	return obs
}

// c13ErrorBundles: bundles rejected with an error that lists several names.
func c13ErrorBundles() map[string]string {
	callee := "/**\n * @param alpha\n * @param beta\n * @param gamma\n * @param? delta\n */\n{template .callee}\n{$alpha}{$beta}{$gamma}{$delta ?: ''}\n{/template}\n"
	return map[string]string{
		"missing required params": "{namespace e}\n/** */\n{template .m}\n{call .callee/}\n{/template}\n" + callee,
		"missing two of three":    "{namespace e}\n/** */\n{template .m}\n{call .callee}{param beta: 1 /}{/call}\n{/template}\n" + callee,
		"undeclared call params":  "{namespace e}\n/** */\n{template .m}\n{call .callee data=\"all\"}{param zeta: 1 /}{param eta: 2 /}{param theta}x{/param}{/call}\n{/template}\n" + callee,
		"unused params":           "{namespace e}\n/**\n * @param p1\n * @param p2\n * @param p3\n */\n{template .m}\nx\n{/template}\n",
		"unused lets":             "{namespace e}\n/** */\n{template .m}\n{let $l1: 1 /}{let $l2: 2 /}{let $l3}x{/let}y\n{/template}\n",
		"unbound reference":       "{namespace e}\n/**\n * @param p1\n * @param p2\n */\n{template .m}\n{$p1}{$p2}{let $v: 1 /}{$v}{$nope}\n{/template}\n",
		"bad attribute":           "{namespace e}\n/** */\n{template .m bogus=\"1\"}\nx\n{/template}\n",
		"unexpected token":        "{namespace e}\n/** */\n{template .m}\n{if true}x{/foreach}\n{/template}\n",
		"bad literal":             "{namespace e}\n/** */\n{template .m}\n{[1 2]}{['a': 1, 2]}\n{/template}\n",
		"duplicate global":        "{namespace e}\n/** */\n{template .m}\n{UNDEFINED_GLOBAL}{OTHER.UNDEF}\n{/template}\n",
		"undefined short global":  "{namespace e}\n/** */\n{template .m}\n{DEBUG}\n{/template}\n",
	}
}

func checkC13(c *Ctx) {
	snapshotPackageState()
	c13ErrorTexts(c)
	snips := c13Snippets()
	names := []string{"a.soy", "b.soy", "c.soy"}
	perms := [][]int{{0, 1, 2}, {0, 2, 1}, {1, 0, 2}, {1, 2, 0}, {2, 0, 1}, {2, 1, 0}}
	bound0, boundN := 2, 1
	capExecs := int64(50000)
	if c.Thorough() {
		bound0, boundN = 3, 1
		capExecs = 20000
	}
	for i := 0; i < len(snips); i++ {
		for j := i; j < len(snips); j++ {
			for _, errs := range []int{0, 1, 2, 4, 3, 5, 6, 7} {
				if errs != 0 && !(j == i || j == i+1) && !c.Thorough() {
					continue
				}
				if !c.Mine() {
					continue
				}
				s2 := snips[j]
				if j == i {
					s2 = ""
				}
				files := c13Files(snips[i], s2, errs)
				key := fmt.Sprintf("%d+%d errs=%d", i, j, errs)
				sig := fmt.Sprintf("snippets %d+%d errs=%d", i, j, errs)
				base := map[string]string{} // aspect -> observation under the first insertion order (canonical map order)
				errTexts := map[string]bool{}
				for pi, p := range perms {
					order := []string{names[p[0]], names[p[1]], names[p[2]]}
					cs := c13case{Files: files, Order: order}
					var first map[string]string
					check := func(v vrt.Verdict, prefix []int, got map[string]string) {
						cs.MapOrder = prefix
						if v.Exhausted || v.Panic != nil {
							c.Violate("compiles", "panic", "panic:"+sig, cs, "returns", fmt.Sprint(v.Panic, v.Exhausted))
							return
						}
						if first == nil {
							first = got
							return
						}
						for k, want := range first {
							if _, ok := got[k]; !ok && (k == "again:compile" || k == "again3:compile" || strings.HasPrefix(k, "again2:")) {
								continue // the second compilation runs in the canonical-order executions only
							}
							if got[k] != want {
								c.Violate("the same sources in the same order always yield the same result (every map iteration order)", "mismatch",
									"map-order:"+aspectClass(k)+":"+sig, cs, clip(want), clip(got[k])+fmt.Sprintf(" under map order %v", prefix))
								return
							}
						}
					}
					if c.Instr() {
						var got map[string]string
						b := boundN
						if pi == 0 {
							b = bound0
						}
						// the second compilation is part of the canonical-order executions only (the two
						// determinism runs and the root): it doubles the cost of an execution.
						nexec := 0
						st := explore(vrt.Options{Fuel: 20000000, MapChoice: true, FixedSched: true}, b, capExecs, func() { nexec++; got = c13Run(files, order, nexec <= 3) },
							func(v vrt.Verdict, prefix []int) { check(v, prefix, got) })
						c.Count("map_orders_explored", st.Execs)
						c.Max("max_map_choice_points", int64(st.MaxPoints))
						if st.Capped {
							c.Cap(fmt.Sprintf("map-order exploration of %s capped (%d executions or the deadline)", key, capExecs))
						}
					} else {
						for rep := 0; rep < 6; rep++ {
							var got map[string]string
							v := vrt.Run(vrt.Options{}, func() { got = c13Run(files, order, rep == 0) })
							check(v, nil, got)
						}
					}
					if first == nil {
						continue
					}
					// repetitions within one process
					for k, v := range first {
						k0 := strings.TrimPrefix(strings.TrimPrefix(strings.TrimPrefix(k, "again:"), "again2:"), "again3:")
						if k0 != k && first[k0] != v {
							c.Violate("repeating the same compilation, emission or render in one process yields byte-identical results", "mismatch", "repetition:"+aspectClass(k0)+":"+sig, cs, clip(first[k0]), clip(v))
						}
					}
					// across insertion orders
					if strings.HasPrefix(first["compile"], "error") {
						errTexts[first["compile"]] = true
					}
					if pi == 0 {
						base = first
						continue
					}
					if (base["compile"] == "ok") != (first["compile"] == "ok") {
						c.Violate("insertion order does not change the accept/reject decision", "mismatch", "order-accept:"+sig, cs, base["compile"], first["compile"])
						continue
					}
					for k, want := range base {
						if k == "compile" || k == "again:compile" || k == "again3:compile" {
							continue
						}
						if first[k] != want {
							c.Violate("insertion order changes nothing except which independent error is reported first", "mismatch", "order:"+aspectClass(k)+":"+sig, cs, clip(want), clip(first[k]))
							break
						}
					}
				}
				nInjected := 0
				for b := 0; b < 3; b++ {
					if errs&(1<<b) != 0 {
						nInjected++
					}
				}
				if len(errTexts) > nInjected {
					var ts []string
					for t := range errTexts {
						ts = append(ts, t)
					}
					sort.Strings(ts)
					c.Violate("the same error has the same text whatever the insertion order", "mismatch", "error-text:"+sig, c13case{Files: files}, fmt.Sprintf("at most %d distinct error texts", nInjected), strings.Join(ts, " || "))
				}
				c.Observe(key, base["compile"]+base["msgs"]+base["render data0 msgs=true"])
				c.Nontrivial()
				if c.Index()%37 == 0 {
					c.Sample(map[string]any{"a.soy": files["a.soy"], "injected_errors": errs, "compile": base["compile"]})
				}
			}
		}
	}
}

func c13ErrorTexts(c *Ctx) {
	bundles := c13ErrorBundles()
	var names []string
	for n := range bundles {
		names = append(names, n)
	}
	sort.Strings(names)
	for _, n := range names {
		if !c.Mine() {
			continue
		}
		src := bundles[n]
		cs := c13case{Files: map[string]string{"e.soy": src}}
		var first string
		run := func() string {
			// (several defined globals end in the undefined names the bundles use: whatever an error
			// message derives from the set of globals must not depend on its iteration order)
			_, err := soy.NewBundle().AddGlobalsMap(data.Map{"app.DEBUG": data.Int(1), "lib.DEBUG": data.Int(2), "x.UNDEFINED_GLOBAL": data.Int(3), "y.UNDEFINED_GLOBAL": data.Int(4), "z.OTHER.UNDEF": data.Int(5), "w.OTHER.UNDEF": data.Int(6)}).
				AddTemplateString("e.soy", src).Compile()
			if err == nil {
				return "accepted"
			}
			return err.Error()
		}
		check := func(v vrt.Verdict, prefix []int, got string) {
			cs.MapOrder = prefix
			if v.Panic != nil || v.Exhausted {
				c.Violate("compiles", "panic", "panic:error bundle "+n, cs, "returns", fmt.Sprint(v.Panic, v.Exhausted))
				return
			}
			if first == "" {
				first = got
				if got == "accepted" {
					c.Violate("fixture is rejected", "mismatch", "fixture:"+n, cs, "an error", "accepted")
				}
			} else if got != first {
				c.Violate("the same sources always yield the same error text", "mismatch", "error-text-order:"+n, cs, first, got+fmt.Sprintf(" under map order %v", prefix))
			}
		}
		if c.Instr() {
			var got string
			st := explore(vrt.Options{Fuel: 20000000, MapChoice: true, FixedSched: true}, 3, 20000, func() { got = run() }, func(v vrt.Verdict, prefix []int) { check(v, prefix, got) })
			c.Count("map_orders_explored", st.Execs)
		} else {
			for rep := 0; rep < 200; rep++ {
				var got string
				v := vrt.Run(vrt.Options{}, func() { got = run() })
				check(v, nil, got)
			}
		}
		c.Observe("errbundle:"+n, first)
		c.Nontrivial()
	}
	// several files with independent syntax errors, fixed insertion order: the error reported does
	// not depend on scheduling either (every interleaving of whatever goroutines the compiler
	// starts, within 1 deviation (thorough: 2), together with the map orders).
	good := "{namespace g%d}\n/** */\n{template .t}\nok\n{/template}\n"
	bads := []string{"{namespace b0}\n/** */\n{template .t}\n{if}\n{/template}\n", "{namespace b1}\n/** */\n{template .t}\n{$x +}\n{/template}\n",
		"{namespace b2}\n/** */\n{template .t}\n{foreach $x}\n{/template}\n" + strings.Repeat("// padding\n", 40), "{namespace b3}\n/** */\n{template .t}\n{call}\n{/template}\n"}
	for mask := 1; mask < 16; mask++ {
		if !c.Mine() {
			continue
		}
		var files []string
		for i := 0; i < 4; i++ {
			if mask&(1<<i) != 0 {
				files = append(files, bads[i])
			} else {
				files = append(files, fmt.Sprintf(good, i))
			}
		}
		cs := c13case{Files: map[string]string{}}
		for i, f := range files {
			cs.Files[fmt.Sprintf("s%d.soy", i)] = f
		}
		run := func() string {
			b := soy.NewBundle()
			for i, f := range files {
				b = b.AddTemplateString(fmt.Sprintf("s%d.soy", i), f)
			}
			_, err := b.Compile()
			if err == nil {
				return "accepted"
			}
			return err.Error()
		}
		var first string
		check := func(v vrt.Verdict, prefix []int, got string) {
			cs.MapOrder = prefix
			switch {
			case v.Panic != nil || v.Exhausted || v.Deadlock:
				c.Violate("compiles", "panic", "panic:syntax-error bundle", cs, "returns", fmt.Sprint(v.Panic, v.Exhausted, v.Deadlock))
			case first == "":
				first = got
			case got != first:
				c.Violate("the same sources in the same order always yield the same result (every schedule)", "mismatch", "schedule-dependent-error", cs, first, got+fmt.Sprintf(" under choices %v", prefix))
			}
		}
		if c.Instr() {
			var got string
			sb, scap := 1, int64(20000)
			if c.Thorough() {
				sb, scap = 2, 400000
			}
			st := explore(vrt.Options{Fuel: 20000000, MapChoice: true}, sb, scap, func() { got = run() }, func(v vrt.Verdict, prefix []int) { check(v, prefix, got) })
			c.Count("schedules_explored", st.Execs)
			if st.Capped {
				c.Cap(fmt.Sprintf("schedule exploration of the syntax-error bundle %04b capped at %d executions", mask, scap))
			}
		} else {
			for rep := 0; rep < 100; rep++ {
				var got string
				v := vrt.Run(vrt.Options{}, func() { got = run() })
				check(v, nil, got)
			}
		}
		c.Observe(fmt.Sprintf("syntax-errors:%04b", mask), first)
		c.Nontrivial()
	}
}

func aspectClass(k string) string {
	f := strings.Fields(k)
	if len(f) >= 2 && f[0] == "js" {
		return "js " + f[1]
	}
	return f[0]
}

func clip(s string) string {
	if len(s) > 700 {
		return s[:700] + "…"
	}
	return s
}
