package main

import (
	"fmt"
	"hash/fnv"
	"math"
	"reflect"
	"sort"
	"unsafe"
)

// digester computes a canonical deep digest of Go values: unexported fields are
// read through unsafe, pointers/maps/slices get a visit number on first sight
// (aliasing structure is part of the digest, addresses are not), map entries
// are combined in sorted order, funcs by code pointer.
type digester struct {
	seen map[uintptr]int
	out  []byte
	deep int
}

// digestPoolsOpaque: the contents of sync pools are left out of the digest (what a correctly used
// pool holds is not observable state; misuse shows in outputs: C08 runs every history of up to
// three operations whatever the digests are, C09 compares interleaved outputs and runs the race pass).
var digestPoolsOpaque = true

func newDigester() *digester { return &digester{seen: map[uintptr]int{}} }

func (d *digester) w(format string, a ...any) { d.out = append(d.out, fmt.Sprintf(format, a...)...) }

func (d *digester) sum() uint64 {
	h := fnv.New64a()
	h.Write(d.out)
	return h.Sum64()
}

// clean returns v without the read-only flag (so that Interface/Set work) and addressable.
func clean(v reflect.Value) reflect.Value {
	if v.CanAddr() {
		return reflect.NewAt(v.Type(), unsafe.Pointer(v.UnsafeAddr())).Elem()
	}
	if v.CanInterface() {
		cp := reflect.New(v.Type()).Elem()
		cp.Set(v)
		return cp
	}
	// read-only and not addressable (e.g. map element of an unexported map): rebuild by kind.
	return v
}

func (d *digester) value(v reflect.Value) {
	d.deep++
	defer func() { d.deep-- }()
	if d.deep > 200 {
		d.w("<deep>")
		return
	}
	if !v.IsValid() {
		d.w("<invalid>")
		return
	}
	switch v.Kind() {
	case reflect.Ptr:
		if v.IsNil() {
			d.w("nil")
			return
		}
		p := v.Pointer()
		if n, ok := d.seen[p]; ok {
			d.w("&#%d", n)
			return
		}
		d.seen[p] = len(d.seen)
		d.w("&%s{", v.Type().Elem().String())
		d.value(v.Elem())
		d.w("}")
	case reflect.Interface:
		if v.IsNil() {
			d.w("nil")
			return
		}
		e := v.Elem()
		d.w("(%s)", e.Type().String())
		if e.Kind() != reflect.Ptr && e.Kind() != reflect.Map && e.Kind() != reflect.Slice && e.Kind() != reflect.Func && e.Kind() != reflect.Chan {
			e = clean(e)
		}
		d.value(e)
	case reflect.Struct:
		if t := v.Type(); digestPoolsOpaque && (t.PkgPath() == "verif/vrt/vsync" && t.Name() == "Pool" || t.PkgPath() == "sync" && t.Name() == "Pool") {
			// the contents of a pool are opaque: by contract nobody may rely on what a pooled object
			// holds (stale pointers into a finished operation's private data are normal), and Get/Put
			// are synchronisation operations. Misuse shows in the interleaved outputs and the race pass.
			d.w("{pool}")
			return
		}
		v = clean(v)
		d.w("{")
		for i := 0; i < v.NumField(); i++ {
			d.w("%s:", v.Type().Field(i).Name)
			f := v.Field(i)
			if f.CanAddr() {
				f = reflect.NewAt(f.Type(), unsafe.Pointer(f.UnsafeAddr())).Elem()
			}
			d.value(f)
			d.w(";")
		}
		d.w("}")
	case reflect.Slice:
		if v.IsNil() {
			d.w("nilslice")
			return
		}
		d.w("[%d:", v.Len())
		if v.Type().Elem().Kind() == reflect.Uint8 {
			d.w("%q", v.Bytes())
		} else {
			for i := 0; i < v.Len(); i++ {
				d.value(v.Index(i))
				d.w(",")
			}
		}
		d.w("]")
	case reflect.Array:
		d.w("[")
		for i := 0; i < v.Len(); i++ {
			d.value(v.Index(i))
			d.w(",")
		}
		d.w("]")
	case reflect.Map:
		if v.IsNil() {
			d.w("nilmap")
			return
		}
		p := v.Pointer()
		if n, ok := d.seen[p]; ok {
			d.w("map#%d", n)
			return
		}
		d.seen[p] = len(d.seen)
		type ent struct{ k, v string }
		var ents []ent
		it := v.MapRange()
		for it.Next() {
			// entries are digested with private digesters sharing the visit table, so that the
			// result does not depend on iteration order except through first-visit numbering
			// of pointers reachable from several entries (rare; acceptable: numbering is then
			// order dependent only for shared substructure, which we make explicit below).
			kd := &digester{seen: d.seen, deep: d.deep}
			kd.value(it.Key())
			vd := &digester{seen: map[uintptr]int{}, deep: d.deep}
			for k, n := range d.seen {
				vd.seen[k] = n
			}
			vd.value(it.Value())
			ents = append(ents, ent{string(kd.out), string(vd.out)})
		}
		sort.Slice(ents, func(i, j int) bool { return ents[i].k < ents[j].k })
		d.w("map[%d:", len(ents))
		for _, e := range ents {
			d.w("%s=>%s,", e.k, e.v)
		}
		d.w("]")
	case reflect.Func:
		if v.IsNil() {
			d.w("nilfunc")
		} else {
			d.w("func@%x", v.Pointer())
		}
	case reflect.Chan, reflect.UnsafePointer:
		d.w("chan@%x", v.Pointer())
	case reflect.String:
		d.w("%q", v.String())
	case reflect.Bool:
		d.w("%v", v.Bool())
	case reflect.Int, reflect.Int8, reflect.Int16, reflect.Int32, reflect.Int64:
		d.w("%d", v.Int())
	case reflect.Uint, reflect.Uint8, reflect.Uint16, reflect.Uint32, reflect.Uint64, reflect.Uintptr:
		d.w("%d", v.Uint())
	case reflect.Float32, reflect.Float64:
		d.w("f%x", math.Float64bits(v.Float()))
	case reflect.Complex64, reflect.Complex128:
		d.w("%v", v.Complex())
	default:
		d.w("<%s>", v.Kind())
	}
}

// deepDigest digests the given roots (pass pointers for addressability).
func deepDigest(roots ...any) uint64 {
	d := newDigester()
	for i, r := range roots {
		d.w("root%d:", i)
		d.value(reflect.ValueOf(r))
		d.w("\n")
	}
	return d.sum()
}

// deepString is deepDigest's canonical text (for diagnosing differences).
func deepString(roots ...any) string {
	d := newDigester()
	for i, r := range roots {
		d.w("root%d:", i)
		d.value(reflect.ValueOf(r))
		d.w("\n")
	}
	return string(d.out)
}
