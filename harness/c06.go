package main

import (
	"bytes"
	"fmt"
	"io"
	"strings"
	"testing/iotest"

	"github.com/robfig/soy"
	"github.com/robfig/soy/data"
	"github.com/robfig/soy/parse"
	"github.com/robfig/soy/soyhtml"
	"verif/vrt"
)

func init() { register("C06", checkC06) }

type c06case struct {
	Kind   string            `json:"kind"` // render | evalexpr | globals | dup | gorender
	Source string            `json:"source,omitempty"`
	Files  map[string]string `json:"files,omitempty"`
	Order  []string          `json:"order,omitempty"`
	Expr   string            `json:"expr,omitempty"`
	Data   string            `json:"data,omitempty"`
	NoIJ   bool              `json:"no_ij,omitempty"`
}

// value classes as source snippets over the fixed environment.
func c06Args() []string {
	return []string{"null", "true", "0", "3", "-2", "0.5", "''", "'a'", "'7'", "[]", "[1, 'b']", "[:]", "['k': 'v']",
		"$und", "$n", "$i", "$h", "$s", "$l", "$mp", "$mp.zz", "$l[9]", "9007199254740991", "-9007199254740991"}
}

func checkC06(c *Ctx) {
	args := c06Args()
	allVars := []string{"und", "n", "i", "h", "s", "l", "mp"}
	doc := soydocFor(allVars)
	// every var is "used" by a trailing harmless reference so that any expression compiles.
	useAll := "{if false}{$und}{$n}{$i}{$h}{$s}{$l}{$mp}{/if}"
	vars := data.Map{}
	for _, v := range allVars {
		if x, ok := exprEnvVars[v]; ok {
			vars[v] = x
		}
	}
	render := func(body string, noIJ bool, sigClass string) {
		if !c.Mine() {
			return
		}
		src := "{namespace v}\n" + doc + "{template .m}\n" + body + useAll + "\n{/template}\n"
		if strings.Contains(body, ".m2") {
			src += "/** @param? p\n @param? b */\n{template .m2}\n({$p ?: ''}{$b ?: ''})\n{/template}\n"
		}
		if strings.HasPrefix(body, "LAST:") {
			// the entry template is the last thing in its file and the body the last thing in it
			body = strings.TrimPrefix(body, "LAST:")
			src = "{namespace v}\n/** @param? p\n @param? b */\n{template .m2}\n({$p ?: ''}{$b ?: ''})\n{/template}\n" + doc + "{template .m}\n" + useAll + body + "{/template}"
		}
		ij := exprIJ
		if noIJ {
			ij = nil
		}
		o := compileAndRender(src, nil, vars, ij, 1000000)
		cs := c06case{Kind: "render", Source: src, NoIJ: noIJ}
		obs := fmt.Sprintf("c=%v|e=%v", o.compileErr != "", o.renderErr != "")
		if o.v.Exhausted {
			obs = "hang"
		} else if o.v.Panic != nil {
			obs = "panic"
		}
		c.Observe(src+fmt.Sprint(noIJ), obs)
		if o.compileErr == "" {
			c.Nontrivial()
		}
		c.Count("obs_"+obs, 1)
		if c.Index()%4999 == 0 {
			c.Sample(map[string]any{"body": body, "observed": obs, "render_error": o.renderErr})
		}
		switch {
		case o.v.Exhausted:
			c.Violate("no loop runs unboundedly on finite data", "hang", "hang:"+sigClass, cs, "returns", "fuel exhausted in "+o.v.ExhaustSite)
		case o.v.Panic != nil:
			c.Violate("no Go panic escapes to the caller", "panic", "panic:"+sigClass+":"+panicSite(o.v.PanicStack), cs, "result or error", fmt.Sprintf("panic: %v", o.v.Panic))
		}
	}
	// (a) every operator x every ordered pair of value classes (ill-typed on purpose)
	for _, op := range binOps {
		for _, a := range args {
			for _, b := range args {
				render("{"+a+" "+op+" "+b+"}", false, "op "+op)
			}
		}
	}
	for _, a := range args {
		render("{-"+a+"}{not "+a+"}", false, "unary")
		render("{"+a+" ? "+a+" : "+a+"}", false, "ternary")
		for _, acc := range []string{".k", "?.k", ".0", "?.0", "[0]", "['k']", "?[0]", "[" + a + "]", "[$und]"} {
			if strings.HasPrefix(a, "$") {
				render("{"+a+acc+"}", false, "access "+acc)
				render("{"+a+acc+acc+"}", false, "access2 "+acc)
			}
		}
	}
	// (b) every function x arity 0..4 x argument classes
	funcs := []string{"isNonnull", "length", "keys", "augmentMap", "round", "floor", "ceiling", "min", "max", "randomInt", "strContains", "range", "hasData", "index", "isFirst", "isLast", "nosuchfn", "bidiGlobalDir"}
	short := []string{"null", "0", "-2", "0.5", "'a'", "[]", "[:]", "$und", "$l", "$mp", "9007199254740991"}
	for _, f := range funcs {
		render("{"+f+"()}", false, "func "+f+"/0")
		for _, a := range args {
			if f == "range" && strings.Contains(a, "900719") {
				continue // finite but astronomically long: not "unbounded"
			}
			render("{"+f+"("+a+")}", false, "func "+f+"/1")
		}
		for _, a := range short {
			for _, b := range short {
				if f == "range" && (strings.Contains(a, "900719") || strings.Contains(b, "900719")) {
					continue // finite but astronomically long: not "unbounded"
				}
				render("{"+f+"("+a+", "+b+")}", false, "func "+f+"/2")
			}
		}
		for _, a := range []string{"0", "'a'", "$und", "[]"} {
			render("{"+f+"("+a+", "+a+", "+a+")}", false, "func "+f+"/3")
			render("{"+f+"("+a+", "+a+", "+a+", "+a+")}", false, "func "+f+"/4")
		}
	}
	// loop functions inside loops on the wrong variable
	render("{foreach $it in $l}{index($it)}{isFirst($i)}{isLast($l)}{/foreach}", false, "loopfunc")
	render("{foreach $it in $l}{foreach $jt in $l}{index($it)}{isLast($jt)}{/foreach}{/foreach}", false, "loopfunc")
	// (c) range with zero / negative / large steps
	for _, a := range []int{-3, 0, 2, 10} {
		for _, b := range []int{-3, 0, 2, 10} {
			for _, s := range []int{-2, -1, 0, 1, 3} {
				render(fmt.Sprintf("{for $k in range(%d, %d, %d)}{$k}{/for}", a, b, s), false, "range step")
				render(fmt.Sprintf("{length(range(%d, %d, %d))}", a, b, s), false, "range step")
			}
		}
	}
	// (c2) range with float, huge and tiny arguments (a float loop counter that stops advancing never ends)
	for _, a := range []string{"1.0", "0.5", "10000000000000000.0", "9007199254740993", "1e300", "-1e300"} {
		for _, b := range []string{"2.0", "10000000000000004.0", "9007199254740996", "1e300", "3"} {
			for _, s := range []string{"", ", 1", ", 0.5", ", 1e-17", ", 1e-320", ", -0.5"} {
				render("{for $k in range("+a+", "+b+s+")}{$k}{/for}", false, "range float")
				render("{length(range("+a+", "+b+s+"))}", false, "range float")
			}
		}
	}
	// (c3) evaluation errors inside quoted attribute expressions (their nodes carry positions inside the quotes)
	for _, b := range []string{"{call .m2 data=\"$und.b.c\"/}", "{call .m2}{param key=\"p\" value=\"$und.b\"/}{/call}", "{css $und.b, cls}", "{call .m2 data=\"$n.x.y\"/}", "{call .m2 data=\"1 < 'a'\"/}",
		strings.Repeat("filler text {$s}\n", 6) + "{call .m2 data=\"$und.b.c\"/}"} {
		render(b, false, "quoted attribute")
		render("LAST:"+b, false, "quoted attribute")
	}
	// ... with the failing sub-expression late in a long attribute of the last tag of the file
	for _, b := range []string{
		"{call .m2 data=\"augmentMap($mp, $und.settings.more.and.more.and.even.more.than.that)\"/}",
		"{call .m2}{param key=\"p\" value=\"'some long string value ' + 'another long string value ' + $und.b.c\"/}{/call}",
		"{css 'a long css component expression ' + 'and some more of it ' + $und.b.c, cls}",
		"{call .m2 data=\"['key one': 'value one', 'key two': 'value two', 'key three': $n.x.y]\"/}",
	} {
		render(b, false, "quoted attribute")
		render("LAST:"+b, false, "quoted attribute")
	}
	// (d) every directive x arity x argument classes
	dirs := []string{"insertWordBreaks", "changeNewlineToBr", "truncate", "id", "noAutoescape", "escapeHtml", "escapeUri", "escapeJsString", "bidiSpanWrap", "bidiUnicodeWrap", "json", "nosuchdir"}
	for _, d := range dirs {
		for _, v := range []string{"$s", "$und", "$n", "$l", "$mp", "0.5", "'é'"} {
			render("{"+v+"|"+d+"}", false, "dir "+d+"/0")
			for _, a := range short {
				render("{"+v+"|"+d+":"+a+"}", false, "dir "+d+"/1")
			}
			for _, a := range []string{"0", "-2", "true", "'a'", "$und", "null"} {
				for _, b := range []string{"0", "true", "false", "'a'", "$und"} {
					render("{"+v+"|"+d+":"+a+","+b+"}", false, "dir "+d+"/2")
				}
			}
			render("{"+v+"|"+d+":1,true,3}", false, "dir "+d+"/3")
		}
	}
	// (e) missing $ij, unset optionals, ill-typed command operands
	for _, b := range []string{"{$ij.x}", "{$ij}", "{$ij?.x}", "{if $ij.x}a{/if}", "{$ij.x.y}{$ij['x']}"} {
		render(b, true, "no ij")
		render(b, false, "ij")
	}
	for _, a := range args {
		for _, body := range []string{
			"{foreach $it in " + a + "}{$it}{/foreach}", "{for $it in " + a + "}{$it}{ifempty}e{/for}", "{switch " + a + "}{case " + a + "}x{default}y{/switch}",
			"{css " + a + ", x}", "{msg desc=\"d\"}{plural " + a + "}{case 1}a{default}b{/plural}{/msg}", "{let $v: " + a + " /}{$v}{$v.a}{$v[0]}", "{let $v}{" + a + "}{/let}{$v}",
			"{log}{" + a + "}{/log}", "{if " + a + "}{" + a + "}{elseif " + a + "}b{/if}",
		} {
			render(body, false, "cmd operand")
		}
	}
	// (f) errors raised one, two and three calls deep; callee missing at run time is impossible (checked at compile time)
	for _, bad := range []string{"{1 < 'a'}", "{$und}", "{$n.x}", "{length(1)}", "{$s|truncate:'x'}", "{1 % 0}", "{range(1,2,0)}", "{$ij.x.y.z}"} {
		for depth := 1; depth <= 3; depth++ {
			if !c.Mine() {
				continue
			}
			src := "{namespace v}\n/** */\n{template .m}\nA{call .d1/}B\n{/template}\n"
			for d := 1; d <= depth; d++ {
				body := bad
				if d < depth {
					body = fmt.Sprintf("x{call .d%d/}y", d+1)
				}
				if d%2 == 0 {
					body = "{let $w}" + body + "{/let}{$w}" // through a block capture
				}
				src += fmt.Sprintf("/** */\n{template .d%d}\n%s\n{/template}\n", d, body)
			}
			o := compileAndRender(src, nil, data.Map{}, nil, 1000000)
			cs := c06case{Kind: "render", Source: src}
			obs := fmt.Sprintf("c=%v|e=%v", o.compileErr != "", o.renderErr != "")
			if o.v.Exhausted {
				obs = "hang"
			} else if o.v.Panic != nil {
				obs = "panic"
			}
			c.Observe(src, obs)
			c.Nontrivial()
			switch {
			case o.v.Exhausted:
				c.Violate("no loop runs unboundedly", "hang", "hang:nested "+bad, cs, "returns", "fuel exhausted in "+o.v.ExhaustSite)
			case o.v.Panic != nil:
				c.Violate("no Go panic escapes to the caller", "panic", fmt.Sprintf("panic:nested depth %d %s", depth, bad), cs, "error", fmt.Sprintf("panic: %v", o.v.Panic))
			case o.compileErr == "" && o.renderErr == "" && bad != "{range(1,2,0)}" && bad != "{1 % 0}":
				c.Violate("the failure inside a called template surfaces as an error", "mismatch", fmt.Sprintf("swallowed:nested depth %d %s", depth, bad), cs, "render error", "nil error; wrote "+o.out)
			}
		}
	}
	// (g) the same template name defined in two files: every order, short and long files
	pad := strings.Repeat("// padding line\n", 40)
	dupFiles := map[string]string{
		"short.soy": "{namespace v}\n/** */\n{template .m}\n{1 < 'a'}\n{/template}\n",
		"long.soy":  "{namespace v}\n" + pad + "/** */\n{template .m}\n" + pad + "{2 < 'b'}\n{/template}\n",
		"other.soy": "{namespace w}\n" + pad + pad + "/** */\n{template .x}\n{call v.m/}{3 < 'c'}\n{/template}\n",
	}
	// (g2) different files added under the SAME file name (the name is documented as only used for
	// error messages and need not be a real or unique file name): a failing render in each.
	sameName := []string{
		"{namespace s1}\n" + pad + pad + "/** */\n{template .a}\n" + pad + "{1 < 'a'}\n{/template}\n",
		"{namespace s2}\n/** */\n{template .b}\n{2 < 'b'}\n{/template}\n",
		"{namespace s3}\n" + pad + "/** */\n{template .c}\n{call s1.a/}{call s2.b/}\n{/template}\n",
	}
	for _, p := range [][]int{{0, 1}, {1, 0}, {0, 1, 2}, {2, 1, 0}, {1, 2, 0}, {0, 2, 1}} {
		for _, fname := range []string{"", "same.soy"} {
			for _, entry := range []string{"s1.a", "s2.b", "s3.c"} {
				if !c.Mine() {
					continue
				}
				var compileErr, renderErr string
				v := vrt.Run(vrt.Options{Fuel: 1000000}, func() {
					b := soy.NewBundle()
					for _, i := range p {
						b = b.AddTemplateString(fname, sameName[i])
					}
					tofu, err := b.CompileToTofu()
					if err != nil {
						compileErr = err.Error()
						return
					}
					var buf bytes.Buffer
					if err := tofu.Render(&buf, entry, nil); err != nil {
						renderErr = firstLineOf(err.Error())
					}
				})
				cs := c06case{Kind: "same-file-name", Files: map[string]string{"0": sameName[0], "1": sameName[1], "2": sameName[2]}, Order: []string{fmt.Sprint(p), fname}, Expr: entry}
				obs := fmt.Sprintf("c=%v|e=%v", compileErr != "", renderErr != "")
				if v.Panic != nil {
					obs = "panic"
				}
				c.Observe(fmt.Sprint("samename", p, fname, entry), obs)
				c.Nontrivial()
				if v.Exhausted {
					c.Violate("terminates", "hang", "hang:same file name", cs, "returns", "fuel exhausted")
				} else if v.Panic != nil {
					c.Violate("no Go panic escapes to the caller", "panic", "panic:files sharing a file name:"+panicSite(v.PanicStack), cs, "error", fmt.Sprintf("panic: %v", v.Panic))
				}
			}
		}
	}
	names := []string{"short.soy", "long.soy", "other.soy"}
	perms := [][]int{{0, 1}, {1, 0}, {0, 1, 2}, {0, 2, 1}, {1, 0, 2}, {1, 2, 0}, {2, 0, 1}, {2, 1, 0}, {0, 2}, {2, 0}, {1, 2}, {2, 1}}
	for _, p := range perms {
		for _, entry := range []string{"v.m", "w.x"} {
			if !c.Mine() {
				continue
			}
			var order []string
			for _, i := range p {
				order = append(order, names[i])
			}
			var compileErr, renderErr, out string
			v := vrt.Run(vrt.Options{Fuel: 1000000}, func() {
				b := soy.NewBundle()
				for _, n := range order {
					b = b.AddTemplateString(n, dupFiles[n])
				}
				tofu, err := b.CompileToTofu()
				if err != nil {
					compileErr = err.Error()
					return
				}
				var buf bytes.Buffer
				if err := tofu.Render(&buf, entry, nil); err != nil {
					renderErr = firstLineOf(err.Error())
				}
				out = buf.String()
			})
			cs := c06case{Kind: "dup", Files: dupFiles, Order: order, Expr: entry}
			obs := fmt.Sprintf("c=%v|e=%v", compileErr != "", renderErr != "")
			if v.Panic != nil {
				obs = "panic"
			}
			c.Observe(strings.Join(order, ",")+entry, obs)
			c.Nontrivial()
			if v.Exhausted {
				c.Violate("terminates", "hang", "hang:dup", cs, "returns", "fuel exhausted")
			} else if v.Panic != nil {
				c.Violate("no Go panic escapes to the caller", "panic", "panic:duplicate template names:"+panicSite(v.PanicStack), cs, "error", fmt.Sprintf("panic: %v (out %q)", v.Panic, out))
			}
		}
	}
	// (h) EvalExpr on every S1 expression (standalone: no variables)
	evalOne := func(src string) {
		if !c.Mine() {
			return
		}
		var val data.Value
		var perr, eerr error
		v := vrt.Run(vrt.Options{Fuel: 500000}, func() {
			n, err := parse.Expr(src)
			if err != nil {
				perr = err
				return
			}
			val, eerr = soyhtml.EvalExpr(n)
		})
		cs := c06case{Kind: "evalexpr", Expr: src}
		obs := fmt.Sprintf("p=%v|e=%v|v=%v", perr != nil, eerr != nil, val != nil)
		if v.Panic != nil {
			obs = "panic"
		}
		if v.Exhausted {
			obs = "hang"
		}
		c.Observe("eval\x00"+src, obs)
		if perr == nil {
			c.Nontrivial()
		}
		switch {
		case v.Exhausted:
			c.Violate("terminates", "hang", "hang:EvalExpr", cs, "returns", "fuel exhausted in "+v.ExhaustSite)
		case v.Panic != nil:
			c.Violate("no Go panic escapes to the caller", "panic", "panic:EvalExpr:"+panicSite(v.PanicStack), cs, "value or error", fmt.Sprintf("panic: %v", v.Panic))
		case perr == nil && (eerr != nil) == (val != nil):
			c.Violate("EvalExpr returns either a result or an error", "mismatch", "EvalExpr result/error", cs, "value xor error", obs)
		}
	}
	exprS1(func(_ string, e *E) { evalOne(e.String()) })
	exprS5(func(_ string, e *E) { evalOne(e.String()) })
	for _, l := range []string{"'abc\\", "'\\", "1 + 'x\\", "['k\\", `'\u12'`, `'ab\u00e'`, `'\u'`, `'\x'`, `'\u00e9'`, `['\u41': 1]`, `'\u12' + 1`} {
		evalOne(l)
	}
	// (h2) a private template rendered as the entry point, and called: output or error, never a panic
	for _, attr := range []string{" private=\"true\"", " private=\"false\"", ""} {
		for _, entry := range []string{"v.p", "v.caller", "v.missing"} {
			if !c.Mine() {
				continue
			}
			src := "{namespace v}\n/** @param? x */\n{template .p" + attr + "}\n[{$x ?: 'nx'}]\n{/template}\n/** @param? x */\n{template .caller}\n<{call .p data=\"all\"/}>\n{/template}\n"
			cs := c06case{Kind: "private template", Source: src + " entry " + entry}
			var out bytes.Buffer
			var cerr, rerr error
			v := vrt.Run(vrt.Options{Fuel: 500000}, func() {
				tofu, err := soy.NewBundle().AddTemplateString("p.soy", src).CompileToTofu()
				if err != nil {
					cerr = err
					return
				}
				rerr = tofu.Render(&out, entry, map[string]interface{}{"x": "v"})
			})
			obs := fmt.Sprintf("c=%v|r=%v|%s", cerr != nil, rerr != nil, out.String())
			if v.Panic != nil {
				obs = "panic"
			}
			c.Observe("private\x00"+attr+entry, obs)
			c.Nontrivial()
			switch {
			case v.Exhausted:
				c.Violate("terminates", "hang", "hang:private entry", cs, "returns", "fuel exhausted in "+v.ExhaustSite)
			case v.Panic != nil:
				c.Violate("no Go panic escapes to the caller", "panic", "panic:private entry:"+panicSite(v.PanicStack), cs, "output or error", fmt.Sprintf("panic: %v", v.Panic))
			}
		}
	}
	// (i) ParseGlobals on every line form
	lines := []string{"", "// comment", "A = 1", "A=1", " A = 'x' ", "A.B = true", "A = null", "A = 1.5", "A = -1", "A = 0x1F", "A", "= 1", "A = ", "A = 1 2", "A = $x", "A = $x.y", "A = 1 < 'a'",
		"A = [1, 2]", "A = ['k': 1]", "A = f(1)", "A = length(1)", "A = not", "A = 'unterminated", "A = 1 / 0", "A = 1 % 0", "A = $ij.x", "A = range(1, 2, 0)", "A = -'a'", "A = 1 == 1 == 1", "A = B", "A = 'a' + 1", "A = =", "A = '\\u12'", "A = 'ab\\u00e'", "A = '\\x'", "A = '\\u00e9'", "\x00", "A = \xff", "A = /", "A = 1 /", "A = 1 // c", "A = 'http://x' // c", "A = 'a' +", "A = -", "A = [", "A = 'x' /", "A = 'hello \\", "A = 'C:\\temp\\", "A = '\\", "A = \\"}
	type gin struct {
		text   string
		reader string // "" = whole input at once; "1" = one byte per Read; "7" = seven bytes per Read
	}
	var gins []gin
	for _, l1 := range lines {
		for _, l2 := range lines {
			gins = append(gins, gin{l1 + "\n" + l2 + "\n", ""})
		}
	}
	// line terminators (LF, CRLF, lone CR, none at the end) and readers that deliver the input in small pieces
	for _, l1 := range []string{"A = 1", "// c", "", "A = 'x", "B.c = [1, 2]"} {
		for _, l2 := range []string{"B = 2", "", "A = $x", "// d"} {
			for _, t1 := range []string{"\n", "\r\n", "\r", "\n\r", "\r\r\n"} {
				for _, t2 := range []string{"\n", "\r\n", "\r", ""} {
					for _, rd := range []string{"", "1", "7"} {
						gins = append(gins, gin{l1 + t1 + l2 + t2, rd})
					}
				}
			}
		}
	}
	// long inputs: a line terminator on either side of every 4096-byte read boundary
	for _, term := range []string{"\r\n", "\n", "\r"} {
		for _, boundary := range []int{4096, 8192, 65536} {
			for d := -3; d <= 2; d++ {
				pad := strings.Repeat("a", boundary+d-3)
				gins = append(gins, gin{"// " + pad + term + "A = 1" + term + "B = 'x'" + term, ""}, gin{"A = '" + pad[:len(pad)-3] + "'" + term + "B = 2", ""})
			}
		}
	}
	for _, g := range gins {
		{
			if !c.Mine() {
				continue
			}
			in := g.text
			var m data.Map
			var err error
			v := vrt.Run(vrt.Options{Fuel: 5000000}, func() {
				var r io.Reader = strings.NewReader(in)
				switch g.reader {
				case "1":
					r = iotest.OneByteReader(r)
				case "7":
					r = &chunkReader{r: r, n: 7}
				}
				m, err = soy.ParseGlobals(r)
			})
			cs := c06case{Kind: "globals", Source: in}
			obs := fmt.Sprintf("e=%v|m=%v", err != nil, m != nil)
			if v.Panic != nil {
				obs = "panic"
			}
			if v.Exhausted {
				obs = "hang"
			}
			if len(in) > 300 {
				cs.Source = fmt.Sprintf("%q ... (%d bytes) ... %q", in[:40], len(in), in[len(in)-40:])
			}
			c.Observe("globals\x00"+g.reader+"\x00"+in, obs)
			c.Nontrivial()
			switch {
			case v.Exhausted:
				c.Violate("terminates", "hang", "hang:ParseGlobals", cs, "returns", "fuel exhausted in "+v.ExhaustSite)
			case v.Panic != nil:
				c.Violate("no Go panic escapes to the caller", "panic", "panic:ParseGlobals:"+panicSite(v.PanicStack), cs, "map or error", fmt.Sprintf("panic: %v", v.Panic))
			case (err != nil) == (m != nil):
				c.Violate("ParseGlobals returns either a result or an error", "mismatch", "ParseGlobals result/error", cs, "map xor error", obs)
			}
		}
	}
	// (j) data of every JSON shape of depth <=2 through Tofu.Render(obj interface{})
	leaves := []interface{}{nil, true, 0, 3.5, "", "a<", []interface{}{}, map[string]interface{}{}}
	var shapes []interface{}
	shapes = append(shapes, leaves...)
	for _, a := range leaves {
		shapes = append(shapes, []interface{}{a}, map[string]interface{}{"k": a}, []interface{}{a, a})
		for _, b := range leaves[:4] {
			shapes = append(shapes, map[string]interface{}{"k": a, "j": []interface{}{b}}, []interface{}{map[string]interface{}{"k": b}, a})
		}
	}
	tmplJ := "{namespace v}\n/** @param? p\n @param? q */\n{template .m}\n{$p}{$p.k}{$p?.k?.j}{if $p}{$p[0]}{/if}{foreach $e in $q}{$e}{ifempty}-{/foreach}{$p == $q}{$p + $q}{length($q)}{keys($p)}{$p|json}\n{/template}\n"
	for _, p := range shapes {
		for _, q := range shapes {
			if !c.Mine() {
				continue
			}
			var rerr string
			var cerr error
			v := vrt.Run(vrt.Options{Fuel: 500000}, func() {
				tofu, err := soy.NewBundle().AddTemplateString("j.soy", tmplJ).CompileToTofu()
				if err != nil {
					cerr = err
					return
				}
				var buf bytes.Buffer
				if err := tofu.Render(&buf, "v.m", map[string]interface{}{"p": p, "q": q}); err != nil {
					rerr = firstLineOf(err.Error())
				}
			})
			cs := c06case{Kind: "gorender", Source: tmplJ, Data: fmt.Sprintf("p=%#v q=%#v", p, q)}
			obs := fmt.Sprintf("e=%v", rerr != "")
			if v.Panic != nil {
				obs = "panic"
			}
			c.Observe(cs.Data, obs)
			c.Nontrivial()
			if cerr != nil {
				c.Violate("fixture compiles", "mismatch", "fixture", cs, "compiles", cerr.Error())
			} else if v.Exhausted {
				c.Violate("terminates", "hang", "hang:json data", cs, "returns", "fuel exhausted")
			} else if v.Panic != nil {
				c.Violate("no Go panic escapes to the caller", "panic", "panic:json data:"+panicSite(v.PanicStack), cs, "output or error", fmt.Sprintf("panic: %v", v.Panic))
			}
		}
	}
}

// chunkReader delivers at most n bytes per Read.
type chunkReader struct {
	r io.Reader
	n int
}

func (c *chunkReader) Read(p []byte) (int, error) {
	if len(p) > c.n {
		p = p[:c.n]
	}
	return c.r.Read(p)
}
