package main

import (
	"errors"
	"fmt"
	"strings"

	"github.com/robfig/soy"
	"github.com/robfig/soy/ast"
	"github.com/robfig/soy/data"
	"github.com/robfig/soy/soyhtml"
	"github.com/robfig/soy/soymsg"
	"github.com/robfig/soy/template"
	"verif/vrt"
)

func init() { register("C12", checkC12) }

// faultWriter records writes and injects failures.
type faultWriter struct {
	accepted   []byte
	calls      int
	failAt     int  // call index that fails (-1: none)
	forever    bool // every call from failAt on fails
	capacity   int  // total bytes accepted before failing (-1: unlimited)
	failed     bool
	afterFail  int // bytes accepted after the first failure
	beforeFail int // bytes accepted before the first failure
}

var errInjected = errors.New("injected write failure")

func (w *faultWriter) Write(p []byte) (int, error) {
	i := w.calls
	w.calls++
	if w.failAt >= 0 && (i == w.failAt || (w.forever && i > w.failAt)) {
		if !w.failed {
			w.failed = true
			w.beforeFail = len(w.accepted)
		}
		return 0, errInjected
	}
	if w.capacity >= 0 {
		room := w.capacity - len(w.accepted)
		if room < len(p) {
			if room < 0 {
				room = 0
			}
			w.accepted = append(w.accepted, p[:room]...)
			if !w.failed {
				w.failed = true
				w.beforeFail = len(w.accepted)
			}
			return room, errInjected
		}
	}
	w.accepted = append(w.accepted, p...)
	if w.failed {
		w.afterFail += len(p)
	}
	return len(p), nil
}

// identityBundle translates every (non-plural) message to itself.
type identityBundle struct {
	msgs map[uint64]*soymsg.Message
}

func (b *identityBundle) Locale() string { return "xx" }
func (b *identityBundle) Message(id uint64) *soymsg.Message {
	return b.msgs[id]
}
func (b *identityBundle) PluralCase(n int) int {
	if n == 1 {
		return 0
	}
	return 1
}

func collectMsgs(n ast.Node, f func(*ast.MsgNode)) {
	if n == nil {
		return
	}
	if m, ok := n.(*ast.MsgNode); ok {
		f(m)
	}
	if p, ok := n.(ast.ParentNode); ok {
		for _, ch := range p.Children() {
			if ch != nil {
				collectMsgs(ch, f)
			}
		}
	}
}

// bodyPlaceholderString renders the children of a message body as text with {NAME} placeholders.
func bodyPlaceholderString(n ast.ParentNode) string {
	var b strings.Builder
	for _, ch := range n.Children() {
		switch ch := ch.(type) {
		case *ast.RawTextNode:
			b.Write(ch.Text)
		case *ast.MsgPlaceholderNode:
			b.WriteString("{" + ch.Name + "}")
		}
	}
	return b.String()
}

// translatedMessage builds the catalogue entry for m, transforming every form with tr. Plural
// messages get two forms, as a PO catalogue for an English-like locale would: [one, other].
func translatedMessage(m *ast.MsgNode, tr func(string) string) *soymsg.Message {
	children := m.Body.Children()
	if len(children) == 1 {
		if pl, ok := children[0].(*ast.MsgPluralNode); ok {
			one := pl.Default
			for _, c := range pl.Cases {
				if c.Value == 1 {
					one = c.Body
				}
			}
			return &soymsg.Message{ID: m.ID, Parts: []soymsg.Part{soymsg.PluralPart{VarName: pl.VarName, Cases: []soymsg.PluralCase{
				{Spec: soymsg.PluralSpec{Type: soymsg.PluralSpecOther, ExplicitValue: -1}, Parts: soymsg.Parts(tr(bodyPlaceholderString(one)))},
				{Spec: soymsg.PluralSpec{Type: soymsg.PluralSpecOther, ExplicitValue: -1}, Parts: soymsg.Parts(tr(bodyPlaceholderString(pl.Default)))},
			}}}}
		}
	}
	for _, ch := range children {
		if _, ok := ch.(*ast.MsgPluralNode); ok {
			return nil
		}
	}
	return soymsg.NewMessage(m.ID, tr(soymsg.PlaceholderString(m)))
}

func identityBundleFor(reg *template.Registry) *identityBundle {
	b := &identityBundle{msgs: map[uint64]*soymsg.Message{}}
	for _, t := range reg.Templates {
		collectMsgs(t.Node, func(m *ast.MsgNode) {
			if msg := translatedMessage(m, func(s string) string { return s }); msg != nil {
				b.msgs[m.ID] = msg
			}
		})
	}
	return b
}

type c12case struct {
	Files  map[string]string `json:"files"`
	Data   string            `json:"data"`
	Bundle bool              `json:"with_message_bundle"`
	Fault  string            `json:"fault"`
	Output string            `json:"fault_free_output"`
}

func c12Fixed() []string {
	return []string{
		"raw text only",
		"a{$x}b",
		"{$x}{$x}{$x}",
		"{$s}<{$s|noAutoescape}>{$s|id}|{$s|escapeHtml}|{$s|truncate:3}",
		"{css cls}{css $x, suf}{css $s, t}z",
		"{msg desc=\"d\"}Hello <b>{$x}</b> and <i>{$s}</i>!{/msg}",
		"{msg desc=\"d\"}{$x}{/msg}{msg desc=\"e\" meaning=\"m\"}plain{/msg}tail",
		"{msg desc=\"p\"}{plural $x}{case 1}one <b>{$s}</b> item{default}{$x} items of {$s}!{/plural}{/msg}end",
		"[{msg desc=\"p\"}{plural $x}{case 0}none{case 1}single{default}many: {$x}{/plural}{/msg}]",
		"{let $w}in{$s}side{/let}[{$w}][{$w|noAutoescape}]",
		"{call .inner}{param p}c{$s}d{/param}{/call}after",
		"{call .inner data=\"all\"/}{call .inner}{param p: $x /}{/call}",
		"{call .outer data=\"all\"/}tail",
		"{call .outer data=\"all\"/}",
		"{foreach $i in $l}{$i},{ifempty}none{/foreach}end",
		"{for $i in range(3)}<{$i}>{/for}",
		"{if $x}{$s}{else}no{/if}{switch $x}{case 1}one{case 2}{$s}two{default}d{/switch}",
		"{literal}{lit} <&>{/literal}{sp}{nil}{lb}{rb}{\\n}",
		"{log}never written {$s}{/log}visible",
		"{$l}{$m}{$x + 1}{$s + $s}",
		"{'&<>\"\\''}{'&<>\"\\''|noAutoescape}",
		// long message text before html tags, at the very end of the file (positions of the parts of
		// a message are computed from text lengths)
		"{msg desc=\"d\"}" + strings.Repeat("long text ", 30) + "<b>{$x}</b> " + strings.Repeat("more\ntext ", 30) + "<i>z</i>{/msg}",
		"{msg desc=\"p\"}{plural $x}{case 1}" + strings.Repeat("one long text ", 20) + "<b>{$s}</b>{default}" + strings.Repeat("many long text ", 20) + "<br>{$x}<hr>{/plural}{/msg}",
	}
}

func checkC12(c *Ctx) {
	lib := "/** @param? p */\n{template .inner}\n({$p ?: 'np'})\n{/template}\n/** @param? s */\n{template .outer}\no[{call .inner}{param p: $s /}{/call}{call .deepest data=\"all\"/}]\n{/template}\n/** @param? s */\n{template .deepest}\n<p>{$s ?: 'ns'}</p>\n{/template}\n"
	datas := []data.Map{
		{"x": data.Int(2), "s": data.String("a<b&c>\"d'"), "l": data.List{data.Int(1), data.String("<")}, "m": data.Map{"k": data.String("&")}},
		{"x": data.Int(1), "s": data.String("plain"), "l": data.List{}, "m": data.Map{}},
		{"x": data.Int(0), "s": data.String("<<<<&&&&"), "l": data.List{data.String("a"), data.String("b"), data.String("c")}, "m": data.Map{"a": data.Int(1), "b": data.Int(2)}},
	}
	var bodies []string
	bodies = append(bodies, c12Fixed()...)
	// plus bodies from the C02 grammar (statement lists and single blocks)
	nGen := 0
	limit := 1500
	if c.Thorough() {
		limit = 30000
	}
	enumBodies(false, func(body []*Cmd, variant int) {
		if nGen >= limit || hasMsgViolation(body) {
			return
		}
		nGen++
		bodies = append(bodies, "GEN:"+srcCmds(body))
	})
	for _, body := range bodies {
		gen := strings.HasPrefix(body, "GEN:")
		body = strings.TrimPrefix(body, "GEN:")
		for di, d := range datas {
			for _, variant := range []int{0, 1, 2, 3} {
				withBundle, libFirst := variant&1 == 1, variant&2 == 2
				if gen && (withBundle || libFirst || di > 0) {
					continue
				}
				if !c.Mine() {
					continue
				}
				var src string
				var dd data.Map
				var files map[string]string
				if gen {
					// generated bodies use the C02 environment
					main := "{namespace app.main}\n{alias lib.deep}\n/**\n * @param? x\n * @param? y\n * @param? c\n * @param? l\n * @param? m\n */\n{template .entry}\n" + body + "{if false}{$x}{$y}{$c}{$l}{$m}{/if}\n{/template}\n"
					files = map[string]string{"main.soy": main}
					libSrcs(files, libFiles())
					dd = c02Data()[4]
					src = main
				} else {
					src = "{namespace app.main}\n/**\n * @param? x\n * @param? s\n * @param? l\n * @param? m\n */\n{template .entry}\n" + body + "{if false}{$x}{$s}{$l}{$m}{/if}\n{/template}\n" + lib
					files = map[string]string{"main.soy": src}
					dd = d
					if libFirst {
						// the same entry template as the last thing in its file
						src = "{namespace app.main}\n" + lib + "/**\n * @param? x\n * @param? s\n * @param? l\n * @param? m\n */\n{template .entry}\n{if false}{$x}{$s}{$l}{$m}{/if}" + body + "\n{/template}"
						files = map[string]string{"main.soy": src}
					}
				}
				runFaults(c, files, dd, withBundle, gen)
			}
		}
	}
}

func runFaults(c *Ctx, files map[string]string, d data.Map, withBundle, gen bool) {
	cs := c12case{Files: files, Data: dataKey(d), Bundle: withBundle}
	var tofu *soyhtml.Tofu
	var bundle soymsg.Bundle
	var cerr error
	vrt.Run(vrt.Options{Fuel: 5000000}, func() {
		b := soy.NewBundle()
		for _, n := range []string{"main.soy", "lib.soy", "sub.soy"} {
			if s, ok := files[n]; ok {
				b = b.AddTemplateString(n, s)
			}
		}
		var reg *template.Registry
		reg, cerr = b.Compile()
		if cerr != nil {
			return
		}
		tofu = soyhtml.NewTofu(reg)
		if withBundle {
			bundle = identityBundleFor(reg)
		}
	})
	key := files["main.soy"] + cs.Data + fmt.Sprint(withBundle)
	if cerr != nil {
		if !gen {
			c.Observe(key, "compile error")
			c.Violate("fixture compiles", "mismatch", "fixture", cs, "compiles", cerr.Error())
		}
		return
	}
	render := func(w *faultWriter) (err error, v vrt.Verdict) {
		v = vrt.Run(vrt.Options{Fuel: 5000000}, func() {
			r := tofu.NewRenderer("app.main.entry")
			if bundle != nil {
				r = r.WithMessages(bundle)
			}
			err = r.Execute(w, d)
		})
		return
	}
	// fault-free run
	w0 := &faultWriter{failAt: -1, capacity: -1}
	err0, v0 := render(w0)
	if v0.Panic != nil || v0.Exhausted {
		c.Observe(key, "panic/hang")
		c.Violate("renders", "panic", "bad-fixture", cs, "renders", fmt.Sprint(v0.Panic, v0.Exhausted))
		return
	}
	if err0 != nil {
		c.Observe(key, "render error without faults")
		return // failing programs are C06's business
	}
	full := string(w0.accepted)
	k, B := w0.calls, len(full)
	cs.Output = full
	obs := strings.Builder{}
	fmt.Fprintf(&obs, "%q k=%d|", full, k)
	check := func(w *faultWriter, fault string) {
		err, v := render(w)
		c.Count("fault_runs", 1)
		cs.Fault = fault
		acc := string(w.accepted)
		fmt.Fprintf(&obs, "%v:%d,", err != nil, len(acc))
		class := faultSite(full, w.beforeFail)
		switch {
		case v.Panic != nil:
			c.Violate("no panic", "panic", "panic:"+fault, cs, "error", fmt.Sprint(v.Panic))
		case v.Exhausted:
			c.Violate("terminates", "hang", "hang:"+fault, cs, "returns", "fuel exhausted")
		case w.failed && err == nil:
			c.Violate("a failing writer surfaces as a non-nil render error", "mismatch", "nil-error:"+class, cs, "non-nil error", fmt.Sprintf("nil error; writer accepted %q of %q", acc, full))
		case !strings.HasPrefix(full, acc):
			c.Violate("the bytes the writer accepted are a prefix of the fault-free output", "mismatch", "not-prefix:"+class, cs, "a prefix of "+fmt.Sprintf("%q", full), fmt.Sprintf("%q", acc))
		case err == nil && acc != full:
			c.Violate("nil only if every byte of the output was accepted", "mismatch", "nil-short:"+class, cs, full, acc)
		}
	}
	for i := 0; i < k; i++ {
		check(&faultWriter{failAt: i, capacity: -1}, fmt.Sprintf("write call %d of %d fails once", i, k))
		check(&faultWriter{failAt: i, forever: true, capacity: -1}, fmt.Sprintf("write call %d of %d and all later calls fail", i, k))
	}
	for cap := 0; cap < B; cap++ {
		check(&faultWriter{failAt: -1, capacity: cap}, fmt.Sprintf("writer accepts only %d of %d bytes (short write + error)", cap, B))
	}
	c.Observe(key, obs.String())
	if k > 0 {
		c.Nontrivial()
	}
	c.Max("max_write_calls", int64(k))
	c.Max("max_output_bytes", int64(B))
	if c.Index()%211 == 0 {
		c.Sample(map[string]any{"main.soy": files["main.soy"], "data": cs.Data, "write_calls": k, "bytes": B, "fault_runs": 2*k + B})
	}
}

// faultSite names what was being written when the fault hit (for signatures).
func faultSite(full string, at int) string {
	lo, hi := at-6, at+6
	if lo < 0 {
		lo = 0
	}
	if hi > len(full) {
		hi = len(full)
	}
	return fmt.Sprintf("near %q", full[lo:hi])
}

func collectMsgsAst(t template.Template, f func(id uint64)) {
	collectMsgs(t.Node, func(m *ast.MsgNode) { f(m.ID) })
}
