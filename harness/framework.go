package main

import (
	"strconv"
	"encoding/json"
	"flag"
	"fmt"
	"hash/fnv"
	"os"
	"runtime/debug"
	"sort"
	"time"

	"verif/internal/proto"
	"verif/vrt"
)

// Ctx is handed to every property check.
type Ctx struct {
	Prop     string
	Tier     string
	Seed     int64
	Shard    int
	NShards  int
	Build    string // instr | plain
	Stride   int64  // plain validation: only every Stride-th case (0/1 = all)
	Replay   string
	deadline time.Time
	res      proto.Result
	outcomes map[uint64]struct{}
	states   map[uint64]struct{}
	idx      int64
	perSig   map[string]int
	journal  *os.File
	only     int64 // run only this case index (-1 = all)
	stopped  bool
}

var checks = map[string]func(*Ctx){}

// debugFrom (VERIF_FROM): skip the cases before this index (bisecting history-dependent behaviour).
var debugFrom = func() int64 { n, _ := strconv.ParseInt(os.Getenv("VERIF_FROM"), 10, 64); return n }()

func register(id string, f func(*Ctx)) { checks[id] = f }

func (c *Ctx) Quick() bool    { return c.Tier != "thorough" }
func (c *Ctx) Instr() bool    { return c.Build == "instr" }
func (c *Ctx) Thorough() bool { return c.Tier == "thorough" }

// Mine assigns the next case index and reports whether this worker owns it.
// Every generator calls Mine exactly once per enumerated case, in a
// deterministic order, so that shards are disjoint and their union is the
// whole space.
func (c *Ctx) Mine() bool {
	i := c.idx
	c.idx++
	if c.stopped {
		return false
	}
	if c.only >= 0 {
		return i == c.only
	}
	if debugFrom > 0 && i < debugFrom {
		return false
	}
	if i%int64(c.NShards) != int64(c.Shard) {
		return false
	}
	if c.Stride > 1 && (i/int64(c.NShards))%c.Stride != 0 {
		return false
	}
	if i&0x3ff == 0 && !c.deadline.IsZero() && time.Now().After(c.deadline) {
		c.stopped = true
		c.res.Exhaustive = false
		c.res.Caps = append(c.res.Caps, fmt.Sprintf("deadline reached at case index %d", i))
		return false
	}
	if c.journal != nil {
		fmt.Fprintf(c.journal, "%d\n", i)
	}
	return true
}

// MineShared assigns the next case index to every worker: the case is one large exploration whose
// first-level subtrees are divided among the workers (exploreSharded).  owner reports whether
// this worker is the one that counts and observes the case.
func (c *Ctx) MineShared() (run, owner bool, shard, nshards int) {
	i := c.idx
	c.idx++
	if c.stopped {
		return false, false, 0, 1
	}
	if c.only >= 0 {
		return i == c.only, i == c.only, 0, 1
	}
	if !c.deadline.IsZero() && time.Now().After(c.deadline) {
		// shared explorations are long: the soft deadline is looked at before each of them
		c.stopped = true
		c.res.Exhaustive = false
		c.res.Caps = append(c.res.Caps, fmt.Sprintf("deadline reached at case index %d", i))
		return false, false, 0, 1
	}
	if c.Stride > 1 && (i/int64(c.NShards))%c.Stride != 0 {
		return false, false, 0, 1
	}
	owner = i%int64(c.NShards) == int64(c.Shard)
	if owner && c.journal != nil {
		fmt.Fprintf(c.journal, "%d\n", i)
	}
	// rotate the assignment of subtrees with the case index so that the root's first children
	// (usually the largest subtrees) do not always land on the same workers.
	return true, owner, (c.Shard + int(i)) % c.NShards, c.NShards
}

// Index returns the index of the case most recently handed out by Mine.
func (c *Ctx) Index() int64 { return c.idx - 1 }

func hash64(s string) uint64 {
	h := fnv.New64a()
	h.Write([]byte(s))
	return h.Sum64()
}

// Observe records the observable behaviour of the current case: it feeds the
// instr-vs-plain comparison and the distinct-outcome count.
func (c *Ctx) Observe(caseKey, obs string) {
	c.res.Cases++
	hk := hash64(caseKey)
	if _, ok := c.states[hk]; !ok {
		c.states[hk] = struct{}{}
	}
	ho := hash64(obs)
	c.outcomes[ho] = struct{}{}
	// order-independent combination (sum of mixed hashes) so that the
	// comparison does not depend on scheduling of shards.
	c.res.ObsHash += hash64(caseKey+"\x00"+obs) | 1
	c.res.ObsCount++
}

// ObserveLocal counts a case that exists only in this build (e.g. schedule
// explorations, which have no counterpart on the plain build).
func (c *Ctx) ObserveLocal(caseKey, obs string) {
	c.res.Cases++
	c.states[hash64(caseKey)] = struct{}{}
	c.outcomes[hash64(obs)] = struct{}{}
}

// Nontrivial counts a distinct non-trivial case (the caller decides by its stated rule).
func (c *Ctx) Nontrivial() { c.res.Nontrivial++ }

func (c *Ctx) Count(name string, n int64) {
	c.res.Counters[name] += n
}

func (c *Ctx) Max(name string, n int64) {
	if n > c.res.Maxima[name] {
		c.res.Maxima[name] = n
	}
}

func (c *Ctx) Note(k, v string) { c.res.Notes[k] = v }

func (c *Ctx) Sample(s any) {
	if len(c.res.Samples) < 6 {
		c.res.Samples = append(c.res.Samples, s)
	}
}

func (c *Ctx) Cap(s string) {
	c.res.Exhaustive = false
	c.res.Caps = append(c.res.Caps, s)
}

// Violate records a failing case.  At most 3 full records are kept per signature.
func (c *Ctx) Violate(clause, kind, sig string, input any, expected, observed string) {
	c.res.ViolCount++
	c.res.SigCounts[sig]++
	if c.perSig[sig] >= 3 {
		return
	}
	c.perSig[sig]++
	if len(observed) > 2000 {
		observed = observed[:2000] + "…"
	}
	if len(expected) > 2000 {
		expected = expected[:2000] + "…"
	}
	c.res.Violations = append(c.res.Violations, proto.Violation{
		Property: c.Prop, Clause: clause, Kind: kind, Sig: sig, Input: input,
		Expected: expected, Observed: observed, Build: c.Build,
		CaseIndex: c.Index(), Tier: c.Tier, Seed: c.Seed,
	})
}

func main() {
	var c Ctx
	var deadlineS int
	var journal string
	flag.StringVar(&c.Prop, "prop", "", "property id")
	flag.StringVar(&c.Tier, "tier", "quick", "quick|thorough")
	flag.Int64Var(&c.Seed, "seed", 0, "seed (selects exhaustive block)")
	flag.IntVar(&c.Shard, "shard", 0, "shard index")
	flag.IntVar(&c.NShards, "nshards", 1, "number of shards")
	flag.Int64Var(&c.Stride, "stride", 1, "validate every n-th case only")
	flag.StringVar(&c.Replay, "replay", "", "replay file")
	flag.IntVar(&deadlineS, "deadline", 0, "soft deadline in seconds")
	flag.StringVar(&journal, "journal", "", "journal file (case indices)")
	flag.Int64Var(&c.only, "only", -1, "run only this case index")
	flag.Parse()
	debug.SetMaxStack(256 << 20)
	debug.SetGCPercent(200)
	c.Build = "plain"
	if vrt.Instrumented() {
		c.Build = "instr"
	}
	if deadlineS > 0 {
		c.deadline = time.Now().Add(time.Duration(deadlineS) * time.Second)
		exploreDeadline = c.deadline
	}
	if journal != "" {
		f, err := os.Create(journal)
		if err == nil {
			c.journal = f
		}
	}
	c.outcomes = map[uint64]struct{}{}
	c.states = map[uint64]struct{}{}
	c.perSig = map[string]int{}
	c.res = proto.Result{Property: c.Prop, Shard: c.Shard, Build: c.Build, Exhaustive: true,
		SigCounts: map[string]int64{}, Counters: map[string]int64{}, Maxima: map[string]int64{}, Notes: map[string]string{}}
	snapshotPackageState()
	f, ok := checks[c.Prop]
	if !ok {
		var ids []string
		for k := range checks {
			ids = append(ids, k)
		}
		sort.Strings(ids)
		fmt.Fprintf(os.Stderr, "unknown property %q (have %v)\n", c.Prop, ids)
		os.Exit(2)
	}
	func() {
		defer func() {
			if r := recover(); r != nil {
				if ie, ok := r.(vrt.InfraError); ok {
					c.res.InfraError = ie.Msg
					return
				}
				c.res.InfraError = fmt.Sprintf("harness panic: %v\n%s", r, debug.Stack())
			}
		}()
		f(&c)
	}()
	c.res.States = int64(len(c.states))
	c.res.Outcomes = int64(len(c.outcomes))
	out, err := json.Marshal(&c.res)
	if err != nil {
		fmt.Fprintln(os.Stderr, "marshal:", err)
		os.Exit(2)
	}
	os.Stdout.Write(out)
	os.Stdout.Write([]byte("\n"))
}
