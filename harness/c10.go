package main

import (
	"fmt"
	"sort"
	"strings"

	"github.com/robfig/soy"
	"github.com/robfig/soy/ast"
	"github.com/robfig/soy/data"
	"github.com/robfig/soy/soymsg"
	"verif/vrt"
)

func init() { register("C10", checkC10) }

type c10case struct {
	Msg      string `json:"msg"`
	Meaning  string `json:"meaning"`
	Desc     string `json:"desc"`
	Surround string `json:"surroundings"`
	MapOrder []int  `json:"map_order_choices,omitempty"`
}

// msgAlphabet: parts chosen so that base names collide.
func msgAlphabet() []MPart {
	tx := func(s string) MPart { return MPart{Kind: "text", Text: s} }
	ht := func(s string) MPart { return MPart{Kind: "html", Text: s} }
	pr := func(e *E, d string) MPart { return MPart{Kind: "print", E: e, Dirs: d} }
	return []MPart{
		tx("Hi "), tx("x"), tx(" and "),
		ht("<b>"), ht("</b>"), ht("<br/>"), ht("<a href=\"u\">"), ht("</a>"), ht("<B>"), ht("<a href=\"v\">"),
		pr(vr("a"), ""), pr(vr("b"), ""), pr(vr("a", Acc{Kind: "dot", Key: "x"}), ""), pr(vr("b", Acc{Kind: "dot", Key: "x"}), ""),
		pr(vr("x_1"), ""), pr(vr("x_2"), ""), pr(vr("x"), ""), pr(vr("aB"), ""), pr(vr("a", Acc{Kind: "idx", Idx: 0}), ""), pr(vr("a"), "|truncate:3"),
		pr(vr("userIdToken"), ""), pr(glob("G.h.NAME", data.String("g")), ""), pr(bin("+", vr("a"), I(1)), ""), pr(vr("b", Acc{Kind: "dot", Key: "x_1"}), ""),
		{Kind: "call", Text: "{call .c/}"}, {Kind: "call", Text: "{call .c}{param p: 1 /}{/call}"},
		// lower-case names with a letter/digit boundary (a word boundary of the official algorithm)
		pr(vr("line1"), ""), ht("<h1>"),
	}
}

type compiledMsg struct {
	id    uint64
	names []string
	phstr string
}

// compileMsgs compiles the file and returns its messages in document order.
func compileMsgs(files []string, globals data.Map) ([]compiledMsg, error) {
	b := soy.NewBundle().AddGlobalsMap(globals)
	for i, f := range files {
		b = b.AddTemplateString(fmt.Sprintf("m%d.soy", i), f)
	}
	reg, err := b.Compile()
	if err != nil {
		return nil, err
	}
	var out []compiledMsg
	for _, t := range reg.Templates {
		collectMsgs(t.Node, func(m *ast.MsgNode) {
			cm := compiledMsg{id: m.ID, phstr: soymsg.PlaceholderString(m)}
			var walk func(n ast.Node)
			walk = func(n ast.Node) {
				switch n := n.(type) {
				case *ast.MsgPlaceholderNode:
					cm.names = append(cm.names, n.Name)
					return
				case *ast.MsgPluralNode:
					cm.names = append(cm.names, n.VarName)
					for _, pc := range n.Cases {
						walk(pc.Body)
					}
					walk(n.Default)
					return
				}
				if p, ok := n.(ast.ParentNode); ok {
					for _, ch := range p.Children() {
						if ch != nil {
							walk(ch)
						}
					}
				}
			}
			walk(m.Body)
			out = append(out, cm)
		})
	}
	return out, nil
}

func msgTemplate(ns string, body string, parts []MPart) string {
	set := map[string]bool{}
	var collect func(ps []MPart)
	collect = func(ps []MPart) {
		for _, p := range ps {
			if p.E != nil {
				p.E.vars(set)
			}
			for _, c := range p.Cases {
				collect(c.Body)
			}
			collect(p.Default)
		}
	}
	collect(parts)
	var vars []string
	for v := range set {
		vars = append(vars, v)
	}
	sort.Strings(vars)
	doc := "/**\n"
	for _, v := range vars {
		doc += " * @param? " + v + "\n"
	}
	doc += " */\n"
	return "{namespace " + ns + "}\n" + doc + "{template .t}\n" + body + "\n{/template}\n/** @param? p */\n{template .c}\n{$p ?: 'c'}\n{/template}\n"
}

func checkC10(c *Ctx) {
	if err := refSelfTest(); err != nil {
		panic(vrt.InfraError{Msg: err.Error()})
	}
	alpha := msgAlphabet()
	globals := data.Map{"G.h.NAME": data.String("g")}
	maxParts := 3
	bound := 2
	if c.Thorough() {
		bound = 3 // same bodies, one more non-canonical map position; 4-part bodies over the colliding prints below
	}
	idOwner := map[uint64]string{} // id -> canonical content key (injectivity over the enumerated set, per worker)

	one := func(parts []MPart, meaning string) {
		if !c.Mine() {
			return
		}
		// two textually identical calls in one message: whether they share a placeholder is
		// not settled by the statement (the official implementation keys calls by node identity); not asserted.
		seenCalls := map[string]bool{}
		for _, p := range parts {
			if p.Kind == "call" {
				if seenCalls[p.Text] {
					c.Count("identical_calls_skipped", 1)
					return
				}
				seenCalls[p.Text] = true
			}
		}
		body := srcParts(parts)
		mattr := ""
		if meaning != "" {
			mattr = " meaning=\"" + meaning + "\""
		}
		wantID, wantPh, wantNames := refMessage(parts, meaning)
		base := msgTemplate("ns.one", "{msg"+mattr+" desc=\"d\"}"+body+"{/msg}", parts)
		// variants: other description, other messages before/after, another file/template around it
		variants := []struct {
			name   string
			files  []string
			at     int   // index of the message under test among the compiled messages
			also   []int // further copies of the message (all must get the same id and names)
			single bool  // one compilation under the canonical map order (the file holds many copies)
		}{
			{"alone", []string{base}, 0, nil, false},
			{"other description", []string{msgTemplate("ns.one", "{msg"+mattr+" desc=\"a completely different description\"}"+body+"{/msg}", parts)}, 0, nil, false},
			{"after and before other messages", []string{msgTemplate("ns.one", "{msg desc=\"x\"}first {$a}{/msg}t{msg"+mattr+" desc=\"d\"}"+body+"{/msg}{msg desc=\"y\"}last<b>{$b}</b>{/msg}",
				append(append([]MPart{}, parts...), MPart{Kind: "print", E: vr("a")}, MPart{Kind: "print", E: vr("b")}))}, 1, nil, false},
			{"second file in another namespace first", []string{msgTemplate("zz.other", "{msg desc=\"q\"}other {$a} file{/msg}", []MPart{{Kind: "print", E: vr("a")}}), base}, 1, nil, false},
			// the message inside every kind of block (messages are found wherever template code can stand)
			{"inside if, let, param, foreach, switch, log and nested blocks", []string{msgTemplate("ns.one", func() string {
				m := "{msg" + mattr + " desc=\"d\"}" + body + "{/msg}"
				return "{if true}" + m + "{else}" + m + "{/if}{let $v_}" + m + "{/let}{$v_}{call .c}{param p}" + m + "{/param}{/call}{foreach $i_ in [1]}" + m + "{ifempty}" + m + "{/foreach}" +
					"{switch 1}{case 1}" + m + "{default}" + m + "{/switch}{log}" + m + "{/log}{let $w_}{call .c}{param p}{if true}" + m + "{/if}{/param}{/call}{/let}{$w_}"
			}(), parts)}, 0, []int{1, 2, 3, 4, 5, 6, 7, 8, 9}, true},
		}
		cs := c10case{Msg: body, Meaning: meaning, Desc: "d"}
		key := body + "\x00" + meaning
		sig := msgSketch(parts)
		var firstObs string
		for vi, va := range variants {
			cs.Surround = va.name
			var ref0 *compiledMsg
			check := func(v vrt.Verdict, prefix []int, got []compiledMsg, err error) {
				cs.MapOrder = prefix
				switch {
				case v.Exhausted || v.Panic != nil:
					c.Violate("compiles", "panic", "panic:"+sig, cs, "compiles", fmt.Sprint(v.Panic, v.Exhausted))
					return
				case err != nil:
					c.Violate("message compiles", "mismatch", "reject:"+sig, cs, "compiles", err.Error())
					return
				case va.at >= len(got):
					c.Violate("message found", "mismatch", "missing:"+sig, cs, "message", "not found")
					return
				}
				m := got[va.at]
				for _, k := range va.also {
					if k >= len(got) {
						c.Violate("message found", "mismatch", "missing-copy:"+sig, cs, fmt.Sprintf("%d messages", len(va.also)+1), fmt.Sprintf("%d found", len(got)))
						return
					}
					if got[k].id != m.id || strings.Join(got[k].names, ",") != strings.Join(m.names, ",") {
						c.Violate("the id is unaffected by the description, surrounding code and other messages", "mismatch", "context-dependent:block:"+sig, cs,
							fmt.Sprintf("%d %v", m.id, m.names), fmt.Sprintf("copy %d of the message: %d %v", k, got[k].id, got[k].names))
						return
					}
				}
				if ref0 == nil {
					ref0 = &m
					if vi == 0 {
						firstObs = fmt.Sprintf("%d %v", m.id, m.names)
					}
					// against the official algorithm
					if strings.Join(m.names, ",") != strings.Join(wantNames, ",") {
						c.Violate("placeholder names follow the official algorithm", "mismatch", "names:"+sig, cs, fmt.Sprintf("%v (%s)", wantNames, wantPh), fmt.Sprintf("%v (%s)", m.names, m.phstr))
					} else if m.id != wantID {
						c.Violate("ids follow the official algorithm (fingerprint of the placeholder string, meaning mixed in)", "mismatch", "id:"+sig+":meaning="+meaning, cs, fmt.Sprint(wantID), fmt.Sprint(m.id))
					}
					return
				}
				if m.id != ref0.id || strings.Join(m.names, ",") != strings.Join(ref0.names, ",") {
					c.Violate("id and placeholder names are identical across compilations (every map iteration order)", "mismatch", "order-dependent:"+sig, cs,
						fmt.Sprintf("%d %v", ref0.id, ref0.names), fmt.Sprintf("%d %v under map order %v", m.id, m.names, prefix))
				}
			}
			if va.single {
				var got []compiledMsg
				var err error
				v := vrt.Run(vrt.Options{Fuel: 20000000}, func() { got, err = compileMsgs(va.files, globals) })
				check(v, nil, got, err)
				ref0 = nil // compared with the first variant through the copies' agreement and the clause below
				if err == nil && va.at < len(got) {
					ref0 = &got[va.at]
				}
			} else if c.Instr() {
				var got []compiledMsg
				var err error
				st := explore(vrt.Options{Fuel: 5000000, MapChoice: true, FixedSched: true}, bound, 20000, func() { got, err = compileMsgs(va.files, globals) },
					func(v vrt.Verdict, prefix []int) { check(v, prefix, got, err) })
				c.Count("map_orders_explored", st.Execs)
				c.Max("max_map_choice_points", int64(st.MaxPoints))
				if st.Capped {
					c.Cap("map-order exploration capped at 20000 for " + body)
				}
			} else {
				// plain build: Go randomises map order itself; compile a few times.
				for rep := 0; rep < 4; rep++ {
					var got []compiledMsg
					var err error
					v := vrt.Run(vrt.Options{}, func() { got, err = compileMsgs(va.files, globals) })
					check(v, nil, got, err)
				}
			}
			// unaffected by description and surroundings: same id as variant 0
			if ref0 != nil && vi > 0 && firstObs != "" && fmt.Sprintf("%d %v", ref0.id, ref0.names) != firstObs {
				c.Violate("the id is unaffected by the description, surrounding code and other messages", "mismatch", "context-dependent:"+va.name+":"+sig, cs, firstObs, fmt.Sprintf("%d %v", ref0.id, ref0.names))
			}
		}
		c.Observe(key, firstObs)
		c.Nontrivial()
		// ids differ for messages that differ in text, placeholder structure or meaning
		if firstObs != "" {
			var id uint64
			fmt.Sscanf(firstObs, "%d", &id)
			// the official algorithm fingerprints the content with placeholder names unbraced
			// (outside plurals), so "{X}{XXX}" and "{XXX}{X}" are the same content by definition.
			content := refFingerprintInput(parts) + "\x00" + meaning
			if prev, ok := idOwner[id]; ok && prev != content {
				c.Violate("the id changes when text, placeholder structure or meaning changes", "mismatch", "collision:"+sig, cs, "distinct ids", fmt.Sprintf("id %d is shared by %q and %q", id, prev, content))
			}
			idOwner[id] = content
		}
		if c.Index()%2003 == 0 {
			c.Sample(map[string]any{"msg": body, "meaning": meaning, "observed": firstObs, "official_placeholder_string": wantPh})
		}
	}

	meanings := []string{"", "m", "m2"}
	var rec func(parts []MPart)
	rec = func(parts []MPart) {
		if len(parts) > 0 {
			for _, m := range meanings {
				if m != "" && len(parts) > 2 {
					continue // meanings are combined with bodies of <=2 parts
				}
				one(parts, m)
			}
		}
		if len(parts) == maxParts {
			return
		}
		for _, a := range alpha {
			rec(append(append([]MPart{}, parts...), a))
		}
	}
	rec(nil)
	if c.Thorough() {
		// 4-part bodies over the parts whose base names collide (the interesting ones for naming)
		coll := []MPart{alpha[0], alpha[3], alpha[6], alpha[10], alpha[12], alpha[14], alpha[15], alpha[16], alpha[18], alpha[23]}
		for _, a := range coll {
			for _, b := range coll {
				for _, d := range coll {
					for _, e := range coll {
						one([]MPart{a, b, d, e}, "")
					}
				}
			}
		}
	}
	// length sweep: the fingerprint consumes 12-byte blocks and mixes the length in, so every
	// residue and the byte/word boundaries of the length are exercised, as text and as meaning.
	for _, L := range append(seq(0, 64), 127, 128, 129, 255, 256, 257, 300, 511, 512, 513, 1023, 1024, 1025, 4095, 4096, 4097, 65535, 65536, 65537) {
		txt := strings.Repeat("abcdefghijk ", L/12+1)[:L]
		if L > 0 {
			one([]MPart{{Kind: "text", Text: "x" + strings.TrimSpace(txt[1:]) + "y"}}, "")
			one([]MPart{{Kind: "text", Text: "m"}}, strings.ReplaceAll(txt, " ", "_"))
			one([]MPart{{Kind: "text", Text: "x" + strings.TrimSpace(txt[1:]) + "y"}, alpha[10]}, "")
		}
	}
	// literal braces around a word that is another message's placeholder name: "{A} took a trip." as
	// text is not the message "{$a} took a trip." (the ids differ: the fingerprint of a placeholder
	// is its bare name). Alone, and each after the other in one file.
	{
		braced := func(t string) MPart {
			return MPart{Kind: "text", Text: t, Src: strings.NewReplacer("{", "{lb}", "}", "{rb}").Replace(t)}
		}
		m1 := []MPart{braced("{A} took a trip.")}
		m2 := []MPart{alpha[10], {Kind: "text", Text: " took a trip."}}
		one(m1, "")
		one(m2, "")
		for _, pair := range [][2][]MPart{{m1, m2}, {m2, m1}} {
			if !c.Mine() {
				continue
			}
			id0, _, _ := refMessage(pair[0], "")
			id1, _, _ := refMessage(pair[1], "")
			src := msgTemplate("ns.pair", "{msg desc=\"d\"}"+srcParts(pair[0])+"{/msg}|{msg desc=\"d\"}"+srcParts(pair[1])+"{/msg}", append(append([]MPart{}, pair[0]...), pair[1]...))
			var got []compiledMsg
			var err error
			v := vrt.Run(vrt.Options{Fuel: 5000000}, func() { got, err = compileMsgs([]string{src}, globals) })
			cs := c10case{Msg: srcParts(pair[0]) + " | " + srcParts(pair[1]), Surround: "two messages in one template"}
			obs := fmt.Sprint(err, len(got))
			if err == nil && len(got) == 2 {
				obs = fmt.Sprint(got[0].id, got[1].id)
			}
			c.Observe("brace-pair\x00"+cs.Msg, obs)
			c.Nontrivial()
			switch {
			case v.Panic != nil || v.Exhausted || err != nil || len(got) != 2:
				c.Violate("message compiles", "mismatch", "reject:brace pair", cs, "two messages", fmt.Sprint(v.Panic, v.Exhausted, err, len(got)))
			case got[0].id != id0 || got[1].id != id1:
				c.Violate("the id is unaffected by the description, surrounding code and other messages", "mismatch", "context-dependent:literal braces", cs, fmt.Sprint(id0, " ", id1), fmt.Sprint(got[0].id, " ", got[1].id))
			}
		}
	}
	// plurals: case sets over {0,1,2}, bodies from a small alphabet, placeholders colliding with the plural variable
	small := []MPart{alpha[0], alpha[10], alpha[11], alpha[3], alpha[14], alpha[16], alpha[12], alpha[13]}
	var bodies [][]MPart
	for _, a := range small {
		bodies = append(bodies, []MPart{a})
		for _, b := range small {
			bodies = append(bodies, []MPart{a, b})
		}
	}
	for _, pv := range []*E{vr("a"), vr("n"), vr("x"), vr("b", Acc{Kind: "dot", Key: "x"}), call("length", vr("l")), vr("a", Acc{Kind: "idx", Idx: 0})} {
		for mask := 0; mask < 8; mask++ {
			for bi, db := range bodies {
				if mask != 2 && bi%9 != 0 && !c.Thorough() {
					continue
				}
				p := MPart{Kind: "plural", E: pv, Default: db}
				for n := 0; n < 3; n++ {
					if mask&(1<<n) != 0 {
						p.Cases = append(p.Cases, MCase{N: n, Body: bodies[(bi+n+1)%len(bodies)]})
					}
				}
				for _, m := range meanings[:2] {
					one([]MPart{p}, m)
				}
			}
		}
	}
	// plurals nested in a case of another plural: the placeholders of the inner
	// plural are numbered after every placeholder of the outer case (breadth first).
	for ai, a := range small {
		for xi, x := range small {
			for bi, b := range small {
				if (ai+xi+bi)%3 != 0 && !c.Thorough() {
					continue
				}
				inner := MPart{Kind: "plural", E: vr("a"), Cases: []MCase{{N: 0, Body: []MPart{x}}}, Default: []MPart{x, a}}
				outer := MPart{Kind: "plural", E: vr("n"), Cases: []MCase{{N: 1, Body: []MPart{a, inner, b}}}, Default: []MPart{b}}
				one([]MPart{outer}, "")
				inner2 := MPart{Kind: "plural", E: vr("n"), Default: []MPart{b, x}}
				outer2 := MPart{Kind: "plural", E: vr("n"), Cases: []MCase{{N: 0, Body: []MPart{x}}}, Default: []MPart{inner2, inner, a}}
				one([]MPart{outer2}, "")
			}
		}
	}
}

func msgSketch(parts []MPart) string {
	var s []string
	for _, p := range parts {
		switch p.Kind {
		case "text":
			s = append(s, "T")
		case "html":
			s = append(s, p.Text)
		case "print":
			s = append(s, "{"+p.E.String()+p.Dirs+"}")
		case "call":
			s = append(s, "call")
		case "plural":
			cs := ""
			for _, c := range p.Cases {
				cs += fmt.Sprint(c.N)
			}
			s = append(s, "plural("+p.E.String()+";"+cs+")")
		}
	}
	return strings.Join(s, " ")
}

func refFingerprintInput(parts []MPart) string {
	nm := map[*MPart]string{}
	for _, u := range refNames(parts) {
		nm[u.part] = u.name
	}
	return refContent(parts, nm, false)
}

func seq(a, b int) []int {
	var out []int
	for i := a; i <= b; i++ {
		out = append(out, i)
	}
	return out
}
