package main

import (
	"bufio"
	"bytes"
	"encoding/json"
	"fmt"
	"os"
	"strconv"
	"strings"
	"sync"
	"unicode/utf16"

	"github.com/robertkrimen/otto"
)

// otto bridge: the JS engine the repository's own tests use.  soyutils.js is
// loaded from /repo (current working tree) with the same three otto-incompatible
// regular-expression lines skipped as soyjs/exec_test.go does.

var (
	jsBaseOnce sync.Once
	jsBase     *otto.Otto
	jsBaseErr  error
)

// jsBaseScript is soyutils.js compiled once; every VM runs it afresh. (Earlier versions cloned one
// loaded VM with otto's Copy, which shares structure between the clones: after some scripts had
// run in other clones, a for-in loop over an object without own properties no longer saw its
// prototype's properties, and keys(augmentMap(['k': 1], [:])) came out empty. An engine artefact.)
var jsBaseScript *otto.Script

func jsBaseVM() (*otto.Otto, error) {
	jsBaseOnce.Do(func() {
		f, err := os.Open("/repo/soyjs/lib/soyutils.js")
		if err != nil {
			jsBaseErr = err
			return
		}
		defer f.Close()
		var buf bytes.Buffer
		sc := bufio.NewScanner(f)
		sc.Buffer(make([]byte, 1<<20), 1<<20)
		for sc.Scan() {
			line := sc.Text()
			// the three filters whose regular expressions otto cannot compile
			if strings.HasPrefix(line, "soy.esc.$$FILTER_FOR_FILTER_CSS_VALUE_ =") ||
				strings.HasPrefix(line, "soy.esc.$$FILTER_FOR_FILTER_HTML_ATTRIBUTES_ =") ||
				strings.HasPrefix(line, "soy.esc.$$FILTER_FOR_FILTER_HTML_ELEMENT_NAME_ =") {
				continue
			}
			buf.WriteString(line)
			buf.WriteByte('\n')
		}
		vm := otto.New()
		sc2, err := vm.Compile("soyutils.js", buf.String())
		if err != nil {
			jsBaseErr = fmt.Errorf("soyutils.js: %v", err)
			return
		}
		if _, err := vm.Run(sc2); err != nil {
			jsBaseErr = fmt.Errorf("soyutils.js: %v", err)
			return
		}
		jsBaseScript = sc2
		jsBase = vm
	})
	return jsBase, jsBaseErr
}

// newJSVM returns a fresh VM with soyutils.js loaded.
func newJSVM() (*otto.Otto, error) {
	if _, err := jsBaseVM(); err != nil {
		return nil, err
	}
	vm := otto.New()
	if _, err := vm.Run(jsBaseScript); err != nil {
		return nil, fmt.Errorf("soyutils.js: %v", err)
	}
	return vm, nil
}

// jsLit renders a Go string as a JavaScript string literal.
func jsLit(s string) string {
	b, _ := json.Marshal(s)
	return string(b)
}

// jsCallTemplate calls a generated template function with JSON data and injected data.
func jsCallTemplate(vm *otto.Otto, fn string, dataJSON, ijJSON string) (out string, err error) {
	defer func() {
		if r := recover(); r != nil {
			err = fmt.Errorf("js panic: %v", r)
		}
	}()
	ij := "undefined"
	if ijJSON != "" {
		ij = "JSON.parse(" + jsLit(ijJSON) + ")"
	}
	v, err := vm.Run(fn + "(JSON.parse(" + jsLit(dataJSON) + "), undefined, " + ij + ");")
	if err != nil {
		return "", err
	}
	return v.String(), nil
}

func jsRun(vm *otto.Otto, src string) (v otto.Value, err error) {
	defer func() {
		if r := recover(); r != nil {
			err = fmt.Errorf("js panic: %v", r)
		}
	}()
	return vm.Run(jsFoldSurrogateEscapes(src))
}

// jsFoldSurrogateEscapes replaces every escape pair \uD8xx\uDCxx (a high surrogate immediately
// followed by a low surrogate) by the character it denotes, written raw.  In a JavaScript string
// literal the two spellings denote the same string; otto, however, converts each escape on its
// own to a Go rune (an unpaired surrogate becomes U+FFFD) and would misreport correct code.  A
// backslash that is itself escaped is skipped together with its escaper.
func jsFoldSurrogateEscapes(src string) string {
	if !strings.Contains(src, "\\uD") && !strings.Contains(src, "\\ud") {
		return src
	}
	var b strings.Builder
	hex4 := func(s string) (rune, bool) {
		if len(s) < 6 || s[0] != '\\' || s[1] != 'u' {
			return 0, false
		}
		n, err := strconv.ParseUint(s[2:6], 16, 32)
		return rune(n), err == nil
	}
	for i := 0; i < len(src); {
		if src[i] != '\\' || i+1 >= len(src) {
			b.WriteByte(src[i])
			i++
			continue
		}
		if hi, ok := hex4(src[i:]); ok && hi >= 0xD800 && hi < 0xDC00 {
			if lo, ok := hex4(src[i+6:]); ok && lo >= 0xDC00 && lo < 0xE000 {
				b.WriteRune(utf16.DecodeRune(hi, lo))
				i += 12
				continue
			}
		}
		b.WriteString(src[i : i+2])
		i += 2
	}
	return b.String()
}
