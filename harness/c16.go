package main

import (
	"bytes"
	"encoding/json"
	"fmt"
	"net/url"
	"strings"
	"unicode/utf8"

	"github.com/robertkrimen/otto"
	"github.com/robfig/soy"
	"github.com/robfig/soy/data"
	"github.com/robfig/soy/soyhtml"
	"github.com/robfig/soy/soyjs"
	"verif/vrt"
)

func init() { register("C16", checkC16) }

type c16case struct {
	Directive string `json:"directive"`
	Value     string `json:"value"`
	Arg       int    `json:"arg,omitempty"`
	Backend   string `json:"backend"`
}

const c16Soy = `{namespace d}
/** @param x */
{template .uri}
{$x|escapeUri}
{/template}
/** @param x */
{template .js}
{$x|escapeJsString}
{/template}
/** @param x */
{template .json}
{$x|json}
{/template}
/** @param x */
{template .br}
{$x|changeNewlineToBr}
{/template}
/** @param x
 @param n */
{template .wbr}
{$x|insertWordBreaks:$n}
{/template}
/** @param x
 @param n */
{template .tr}
{$x|truncate:$n|noAutoescape}
{/template}
/** @param x
 @param n */
{template .trf}
{$x|truncate:$n,false|noAutoescape}
{/template}
/** @param x */
{template .html}
{$x|escapeHtml}
{/template}
/** @param x */
{template .raw}
{$x|noAutoescape}
{/template}
/** @param x
 @param n */
{template .trbr}
{$x|truncate:$n|changeNewlineToBr}
{/template}
/** @param x
 @param n */
{template .brwbr}
{$x|changeNewlineToBr|insertWordBreaks:$n}
{/template}
/** @param x
 @param n */
{template .trwbr}
{$x|truncate:$n|insertWordBreaks:2}
{/template}
/** @param x */
{template .rawbr}
{$x|noAutoescape|changeNewlineToBr}
{/template}
/** @param x */
{template .broff autoescape="false"}
{$x|changeNewlineToBr}
{/template}
/** @param x
 @param n */
{template .wbroff autoescape="false"}
{$x|insertWordBreaks:$n}
{/template}
/** @param x */
{template .urijs}
{$x|escapeUri|escapeJsString}
{/template}
/** @param x */
{template .jsuri}
{$x|escapeJsString|escapeUri}
{/template}
/** @param x */
{template .jsonjs}
{$x|json|escapeJsString}
{/template}
`

func uriSafe(b byte) bool {
	return b >= 'a' && b <= 'z' || b >= 'A' && b <= 'Z' || b >= '0' && b <= '9' || strings.IndexByte("-_.~%+", b) >= 0
}

// pctDecode: '+' is a space (form encoding, pinned by the repository's tests), %XX a byte.
func pctDecode(s string) (string, bool) {
	var b []byte
	for i := 0; i < len(s); i++ {
		switch s[i] {
		case '+':
			b = append(b, ' ')
		case '%':
			if i+2 >= len(s) {
				return "", false
			}
			var v byte
			for _, c := range []byte{s[i+1], s[i+2]} {
				v <<= 4
				switch {
				case c >= '0' && c <= '9':
					v |= c - '0'
				case c >= 'a' && c <= 'f':
					v |= c - 'a' + 10
				case c >= 'A' && c <= 'F':
					v |= c - 'A' + 10
				default:
					return "", false
				}
			}
			b = append(b, v)
			i += 2
		default:
			b = append(b, s[i])
		}
	}
	return string(b), true
}

func c16Strings(thorough bool) []string {
	var out []string
	out = append(out, "")
	for a := 0; a < 256; a++ {
		out = append(out, string([]byte{byte(a)}))
	}
	for a := 0; a < 256; a++ {
		for b := 0; b < 256; b++ {
			out = append(out, string([]byte{byte(a), byte(b)}))
		}
	}
	alpha := []string{"&", "<", ";", "l", "t", " ", "\n", "\r", "é", "😀", "'", "\\"}
	cur := []string{""}
	for l := 1; l <= 4; l++ {
		var next []string
		for _, p := range cur {
			for _, a := range alpha {
				next = append(next, p+a)
			}
		}
		if l >= 3 {
			out = append(out, next...)
		}
		cur = next
	}
	out = append(out, "&amp;", "&lt;b&gt;", "<script>alert(1)</script>", "</script>", "a&b;c", "&#39;", "x\u2028y\u2029z", "\u0085\u00a0\ufeff", "ab€defghij", "日本語のテキスト", strings.Repeat("ab<&'\" \n", 1250),
		strings.Repeat("a", 70)+"&"+strings.Repeat("b", 70), "]]>", "<!--", "a\x00b", "\a\v\f\b", "\x7f", "𝒳𝒴", "é",
		// non-printable and unassigned characters in and outside the basic plane
		"\U000E0001", "a\U000F0000b", "\U0010FFFF", "\u200b\u00ad", "\ufffe", "x\u0600y", "\U0001D11E\U000E0020", "\U0001F600\U000E0001!")
	return out
}

func checkC16(c *Ctx) {
	strs := c16Strings(c.Thorough())
	var tofu *soyhtml.Tofu
	var jsSrc bytes.Buffer
	var cerr error
	vrt.Run(vrt.Options{}, func() {
		reg, err := soy.NewBundle().AddTemplateString("d.soy", c16Soy).Compile()
		if err != nil {
			cerr = err
			return
		}
		tofu = soyhtml.NewTofu(reg)
		cerr = soyjs.Write(&jsSrc, reg.SoyFiles[0], soyjs.Options{})
	})
	if cerr != nil {
		c.Violate("fixture compiles", "mismatch", "fixture", c16case{}, "compiles", cerr.Error())
		return
	}
	vm, err := newJSVM()
	if err != nil {
		panic(vrt.InfraError{Msg: "otto: " + err.Error()})
	}
	if _, err := jsRun(vm, jsSrc.String()); err != nil {
		c.Violate("generated JavaScript loads", "mismatch", "js-load", c16case{}, "loads", err.Error())
		return
	}
	goRender := func(t string, x data.Value, n int) (string, error) {
		var buf bytes.Buffer
		var err error
		v := vrt.Run(vrt.Options{Fuel: 50000000}, func() {
			err = tofu.NewRenderer("d."+t).Execute(&buf, data.Map{"x": x, "n": data.Int(n)})
		})
		if v.Panic != nil {
			return "", fmt.Errorf("panic: %v", v.Panic)
		}
		if v.Exhausted {
			return "", fmt.Errorf("hang")
		}
		return buf.String(), err
	}
	jsRender := func(t string, x string, n int) (string, error) {
		d, _ := json.Marshal(map[string]interface{}{"x": x, "n": n})
		return jsCallTemplate(vm, "d."+t, string(d), "")
	}
	for si, s := range strs {
		if !c.Mine() {
			continue
		}
		valid := utf8.ValidString(s)
		long := len(s) > 100
		vclass := valClass16(s)
		obs := strings.Builder{}
		for _, be := range []string{"go", "js"} {
			if be == "js" && (!isASCII(s) || long && si%2 == 0) {
				// otto stores non-ASCII strings as UTF-8 bytes and indexes them bytewise (an engine
				// artefact, not a property of the generated code): the JS side is judged on ASCII only.
				continue
			}
			render := func(t string, n int) (string, bool) {
				var out string
				var err error
				if be == "go" {
					out, err = goRender(t, data.String(s), n)
				} else {
					out, err = jsRender(t, s, n)
				}
				c.Count("directive_applications_"+be, 1)
				if err != nil {
					c.Violate("directive returns", "mismatch", "error:"+t+":"+be+":"+vclass, c16case{t, clipq(s), n, be}, "output", err.Error())
					return "", false
				}
				if !long {
					obs.WriteString(out)
					obs.WriteByte('|')
				}
				return out, true
			}
			bad := func(clause, sigcls, t string, n int, want, got string) {
				c.Violate(clause, "mismatch", sigcls+":"+be+":"+vclass, c16case{t, clipq(s), n, be}, clip(want), clip(got))
			}
			// escapeUri
			if out, ok := render("uri", 0); ok {
				safe := true
				for i := 0; i < len(out); i++ {
					if !uriSafe(out[i]) && !(be == "js" && strings.IndexByte("!*()", out[i]) >= 0) {
						safe = false
					}
				}
				dec, okd := pctDecode(out)
				if be == "js" {
					// the JS helper encodes a space as %20 and never emits '+': decode with the standard library
					d2, err := url.PathUnescape(out)
					dec, okd = d2, err == nil
				}
				if !safe {
					bad("escapeUri output contains only URL-safe characters", "uri-unsafe", "uri", 0, "unreserved characters, %XX and +", out)
				} else if !okd || dec != s {
					bad("escapeUri output percent-decodes to the value", "uri-decode", "uri", 0, s, fmt.Sprintf("%q decodes to %q", out, dec))
				}
			}
			// escapeJsString
			if out, ok := render("js", 0); ok {
				if strings.ContainsAny(out, "\n\r") || strings.Contains(out, "\u2028") || strings.Contains(out, "\u2029") || strings.Contains(out, "</") {
					bad("escapeJsString output is safe between quotes in a script", "js-unsafe", "js", 0, "no raw line terminator or </", out)
				} else if valid {
					for _, q := range []string{"'", "\""} {
						v, err := jsRun(vm, q+out+q)
						if err != nil {
							bad("escapeJsString output can be placed between quotes in a script", "js-syntax", "js", 0, "a string literal", q+out+q+": "+err.Error())
							break
						}
						if got := v.String(); got != s {
							bad("escapeJsString output evaluates to the value", "js-value", "js", 0, fmt.Sprintf("%q", s), fmt.Sprintf("%s evaluates to %q", q+out+q, got))
							break
						}
					}
				}
			}
			// json
			if out, ok := render("json", 0); ok {
				var back interface{}
				if err := json.Unmarshal([]byte(out), &back); err != nil {
					bad("json output parses", "json-parse", "json", 0, "valid JSON", out+": "+err.Error())
				} else if bs, isStr := back.(string); valid && (!isStr || bs != s) {
					bad("json output parses to a value equal to the input", "json-value", "json", 0, fmt.Sprintf("%q", s), fmt.Sprintf("%s parses to %v", out, back))
				}
				if valid {
					if v, err := jsRun(vm, "JSON.parse("+jsLit(out)+")"); err != nil || v.String() != s {
						bad("json output parses (JavaScript JSON.parse) to the input", "json-jsparse", "json", 0, fmt.Sprintf("%q", s), fmt.Sprintf("%s: %v %v", out, v, err))
					}
				}
			}
			// changeNewlineToBr
			for _, t := range []string{"br", "broff"} {
				out, ok := render(t, 0)
				if !ok {
					continue
				}
				stripped := strings.ReplaceAll(out, "<br>", "")
				nl := strings.Count(strings.ReplaceAll(s, "\r\n", "\n"), "\n") + strings.Count(strings.ReplaceAll(s, "\r\n", ""), "\r")
				want := strings.NewReplacer("\r\n", "", "\r", "", "\n", "").Replace(s)
				dec, okd := htmlDecodeFull(stripped)
				switch {
				case !okd:
					bad("changeNewlineToBr changes nothing but line breaks in the escaped text", "br-raw:"+t, t, 0, "escaped text with <br> for line breaks", out)
				case strings.ContainsRune(s, 0) || (!valid && be != "go"):
				case dec != want:
					bad("changeNewlineToBr changes nothing but line breaks in the escaped text", "br-text:"+t, t, 0, want, fmt.Sprintf("%q decodes to %q", out, dec))
				case strings.Count(out, "<br>") != nl:
					bad("changeNewlineToBr turns every line break into one <br>", "br-count:"+t, t, 0, fmt.Sprint(nl, " <br>"), out)
				}
			}
			// insertWordBreaks with every in-range limit
			maxN := len(s) + 2
			if maxN > 8 {
				maxN = 8
			}
			for k := 1; k <= maxN+1; k++ {
				t, n := "wbr", k
				if k == maxN+1 {
					t, n = "wbroff", 2
				}
				out, ok := render(t, n)
				if !ok {
					continue
				}
				stripped := strings.ReplaceAll(out, "<wbr>", "")
				dec, okd := htmlDecodeFull(stripped)
				switch {
				case !okd:
					bad("insertWordBreaks changes nothing but break opportunities in the escaped text", "wbr-raw", t, n, "escaped text with <wbr>", out)
				case strings.ContainsRune(s, 0) || (!valid && be != "go"):
				case dec != s:
					// (also for strings that are not valid UTF-8: the directive passes bytes through)
					bad("insertWordBreaks changes nothing but break opportunities in the escaped text", "wbr-text", t, n, s, fmt.Sprintf("%q decodes to %q", out, dec))
				case wbrInsideEntity(out):
					bad("no <wbr> falls inside a character reference", "wbr-entity", t, n, "breaks between characters", out)
				case be == "go" && maxRun(out) > n:
					bad("insertWordBreaks offers a break at least every n characters of a word", "wbr-run", t, n, fmt.Sprintf("runs of at most %d characters", n), out)
				}
			}
			// truncate with every in-range limit
			units := len(s)
			if be == "js" {
				units = utf16Len(s)
			}
			maxT := units + 2
			step := 1
			if maxT > 40 {
				step = maxT / 13
			}
			for n := 0; n <= maxT; n += step {
				for _, t := range []string{"tr", "trf"} {
					out, ok := render(t, n)
					if !ok {
						continue
					}
					outUnits := len(out)
					if be == "js" {
						outUnits = utf16Len(out)
					}
					body := out
					if t == "tr" && units > n && n > 3 {
						if !strings.HasSuffix(out, "...") {
							bad("truncate marks the cut with an ellipsis when there is room", "tr-ellipsis", t, n, "...", out)
							continue
						}
						body = strings.TrimSuffix(out, "...")
					}
					switch {
					case units <= n && out != s:
						bad("truncate returns the value unchanged when it fits", "tr-identity", t, n, s, out)
					case units > n && !strings.HasPrefix(s, body):
						bad("truncate returns a prefix of the value", "tr-prefix", t, n, "a prefix of "+clipq(s), out)
					case units > n && outUnits > n:
						bad("truncate never returns more than the limit", "tr-length", t, n, fmt.Sprintf("at most %d", n), fmt.Sprintf("%q (%d)", out, outUnits))
					case valid && !utf8.ValidString(out):
						bad("truncate cuts at a character boundary (valid UTF-8)", "tr-utf8", t, n, "valid UTF-8", fmt.Sprintf("%q", out))
					case valid && be == "js" && strings.ContainsRune(out, utf8.RuneError) && !strings.ContainsRune(s, utf8.RuneError):
						bad("truncate cuts at a character boundary (no lone surrogate)", "tr-surrogate", t, n, "whole characters", fmt.Sprintf("%q", out))
					}
				}
			}
			// chains that end in an HTML-producing directive: whatever precedes it, no raw special may
			// remain once the directive's own markup is removed (both backends).
			for _, t := range []string{"trbr", "brwbr", "trwbr", "rawbr"} {
				if long {
					continue
				}
				out, ok := render(t, 3)
				if !ok {
					continue
				}
				stripped := strings.ReplaceAll(strings.ReplaceAll(out, "<br>", ""), "<wbr>", "")
				if _, okd := htmlDecodeFull(stripped); !okd && t != "rawbr" {
					bad("an HTML-producing directive escapes what it passes through, wherever it stands in a chain", "chain-raw:"+t, t, 3, "no raw special outside <br>/<wbr>", out)
				}
			}
			// chains: the composition law d1|d2 == d2(d1(x))
			if !long && be == "go" {
				for _, ch := range []struct{ chain, first, second string }{{"trbr", "tr", "br"}, {"brwbr", "br", "wbr"}, {"urijs", "uri", "js"}, {"jsuri", "js", "uri"}, {"jsonjs", "json", "js"}} {
					n := 3
					whole, ok1 := render(ch.chain, n)
					mid, ok2 := goRender(ch.first, data.String(s), n)
					if !ok1 || ok2 != nil {
						continue
					}
					// the intermediate value of the chain is the directive's result, which for HTML-producing
					// directives is already the rendered text; feed it to the second directive unescaped.
					var want string
					var err error
					switch ch.second {
					case "br", "wbr":
						continue // escaping directives re-escape their input: covered by C03's multi-escape clause
					default:
						want, err = goRender(ch.second, data.String(mid), n)
					}
					if err == nil && whole != want {
						bad("a chain of directives is the composition of its members", "chain:"+ch.chain, ch.chain, n, want, whole)
					}
				}
			}
		}
		c.Observe(fmt.Sprintf("%q", s), obs.String())
		c.Nontrivial()
		if c.Index()%7001 == 0 {
			c.Sample(map[string]any{"value": clipq(s), "observed": clip(obs.String())})
		}
	}
}

func clipq(s string) string {
	q := fmt.Sprintf("%q", s)
	if len(q) > 200 {
		q = q[:200] + "…"
	}
	return q
}

func hasAstral(s string) bool {
	for _, r := range s {
		if r > 0xffff {
			return true
		}
	}
	return false
}

func utf16Len(s string) int {
	n := 0
	for _, r := range s {
		n++
		if r > 0xffff {
			n++
		}
	}
	return n
}

// htmlDecodeFull accepts the five references in any of their spellings plus numeric references.
func htmlDecodeFull(s string) (string, bool) {
	var b strings.Builder
	for i := 0; i < len(s); {
		switch s[i] {
		case '<', '>', '"', '\'':
			return "", false
		case '&':
			j := strings.IndexByte(s[i:], ';')
			if j < 0 || j > 10 {
				return "", false
			}
			ent := s[i+1 : i+j]
			switch {
			case ent == "amp":
				b.WriteByte('&')
			case ent == "lt":
				b.WriteByte('<')
			case ent == "gt":
				b.WriteByte('>')
			case ent == "quot":
				b.WriteByte('"')
			case ent == "apos":
				b.WriteByte('\'')
			case strings.HasPrefix(ent, "#x") || strings.HasPrefix(ent, "#X"):
				var v int
				if _, err := fmt.Sscanf(ent[2:], "%x", &v); err != nil {
					return "", false
				}
				b.WriteRune(rune(v))
			case strings.HasPrefix(ent, "#"):
				var v int
				if _, err := fmt.Sscanf(ent[1:], "%d", &v); err != nil {
					return "", false
				}
				b.WriteRune(rune(v))
			default:
				return "", false
			}
			i += j + 1
		default:
			b.WriteByte(s[i])
			i++
		}
	}
	return b.String(), true
}

func wbrInsideEntity(out string) bool {
	// a character reference interrupted by <wbr>: "&" ... "<wbr>" ... ";" without a complete reference before the tag
	for i := 0; i < len(out); i++ {
		if out[i] != '&' {
			continue
		}
		j := strings.IndexAny(out[i+1:], ";<& ")
		if j >= 0 && out[i+1+j] == '<' {
			return true
		}
	}
	return false
}

// maxRun: the longest run of characters (references count as one) without a space or a <wbr>.
func maxRun(out string) int {
	max, cur := 0, 0
	for i := 0; i < len(out); {
		switch {
		case strings.HasPrefix(out[i:], "<wbr>"):
			cur = 0
			i += 5
		case out[i] == ' ':
			cur = 0
			i++
		case out[i] == '&':
			j := strings.IndexByte(out[i:], ';')
			if j < 0 {
				j = 0
			}
			cur++
			i += j + 1
		default:
			_, w := utf8.DecodeRuneInString(out[i:])
			cur++
			i += w
		}
		if cur > max {
			max = cur
		}
	}
	return max
}

func valClass16(s string) string {
	cls := ""
	if !utf8.ValidString(s) {
		cls += "invalid-utf8 "
	}
	if hasAstral(s) {
		cls += "astral "
	}
	for _, r := range s {
		if r >= 0x80 && r <= 0xffff {
			cls += "multibyte "
			break
		}
	}
	for _, ch := range []string{"&", "<", ">", "\"", "'", "\\", "\n", "\r", " ", "\x00", "\u2028"} {
		if strings.Contains(s, ch) {
			cls += fmt.Sprintf("%q", ch)
		}
	}
	if len(s) > 100 {
		cls += " long"
	}
	return strings.TrimSpace(cls)
}

var _ = otto.Value{}

func isASCII(s string) bool {
	for i := 0; i < len(s); i++ {
		if s[i] >= 0x80 {
			return false
		}
	}
	return true
}
