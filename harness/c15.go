package main

import (
	"bytes"
	"fmt"
	"regexp"
	"strings"

	"github.com/robfig/soy"
	"github.com/robfig/soy/data"
	"github.com/robfig/soy/soyhtml"
	"verif/vrt"
)

func init() { register("C15", checkC15) }

var reLiteral = regexp.MustCompile(`(?s)\{\{literal\}\}.*?\{\{/literal\}\}|\{literal\}.*?\{/literal\}`)

func isWS(b byte) bool { return b == ' ' || b == '\t' || b == '\r' || b == '\n' }

// refJoinLines is the line-joining rule exactly as the property words it.
func refJoinLines(s string) string {
	var out strings.Builder
	i := 0
	for i < len(s) {
		if !isWS(s[i]) {
			out.WriteByte(s[i])
			i++
			continue
		}
		j := i
		hasBreak := false
		for j < len(s) && isWS(s[j]) {
			if s[j] == '\n' || s[j] == '\r' {
				hasBreak = true
			}
			j++
		}
		switch {
		case !hasBreak:
			out.WriteString(s[i:j]) // whitespace without a line break is preserved exactly
		case i == 0 || j == len(s):
			// removed at the ends of a text run
		default:
			l, r := s[i-1], s[j]
			if l == '<' || l == '>' || r == '<' || r == '>' {
				// nothing
			} else {
				out.WriteByte(' ')
			}
		}
		i = j
	}
	return out.String()
}

type c15case struct {
	Body string `json:"template_body"`
	Ctx  string `json:"context"`
}

type c15item struct {
	body   string                  // template body source
	want   string                  // expected output ("" with weak=true: see wantFn)
	weak   func(out string) string // alternative oracle: returns "" if fine, else complaint
	ctx    string
	sigcls string
}

func checkC15(c *Ctx) {
	var batch []c15item
	flush := func() {
		if len(batch) == 0 {
			return
		}
		runC15Batch(c, batch)
		batch = batch[:0]
	}
	add := func(it c15item) {
		if !c.Mine() {
			return
		}
		batch = append(batch, it)
		if len(batch) >= 100 {
			flush()
		}
	}
	alpha := []string{"a", "<", ">", " ", "\t", "\r", "\n", "é"}
	type nb struct{ name, src, out string }
	neighbours := []nb{{"edge", "", ""}, {"print", "{$x}", "X"}, {"sp", "{sp}", " "}, {"nil", "{nil}", ""}, {"block", "{if $x}y{/if}", "y"}}
	var texts [][]string // by length
	texts = append(texts, []string{""})
	for l := 1; l <= 6; l++ {
		var cur []string
		for _, p := range texts[l-1] {
			for _, a := range alpha {
				cur = append(cur, p+a)
			}
		}
		texts = append(texts, cur)
	}
	maxAll, maxDiag, maxPP := 4, 5, 6
	if c.Thorough() {
		maxAll, maxDiag, maxPP = 5, 6, 6
	}
	for li, L := range neighbours {
		for ri, R := range neighbours {
			max := maxAll
			if li == ri && maxDiag > max {
				max = maxDiag
			}
			if L.name == "print" && R.name == "print" {
				max = maxPP
			}
			for l := 0; l <= max; l++ {
				for _, t := range texts[l] {
					add(c15item{body: L.src + t + R.src, want: L.out + refJoinLines(t) + R.out, ctx: L.name + "|" + R.name, sigcls: "join:" + L.name + "|" + R.name + ":" + textShape(t)})
				}
			}
		}
	}
	flush()
	// two text runs separated by a tag: each run is normalised on its own.
	for _, t1 := range texts[3] {
		for _, t2 := range texts[2] {
			add(c15item{body: t1 + "{$x}" + t2, want: refJoinLines(t1) + "X" + refJoinLines(t2), ctx: "edge|print|edge", sigcls: "join2:" + textShape(t1) + "+" + textShape(t2)})
		}
	}
	flush()
	// comments: every placement relative to text and line ends.
	pieces := []string{"", "a", "a ", " a", "a\n", "\na", "<", "a<", "> ", "a\n ", " \n", "b b"}
	comments := []struct {
		src  string
		line bool
		term string // what ends a line comment: LF, a lone CR or CRLF
	}{{"// c", true, "\n"}, {"//c", true, "\n"}, {"// c", true, "\r"}, {"//c", true, "\r\n"}, {"/* c */", false, ""}, {"/*c*/", false, ""}, {"/* c\nc */", false, ""}, {"/**/", false, ""}, {"/* c **/", false, ""}, {"/***/", false, ""}, {"/** c */", false, ""}, {"/** @param x */", false, ""}, {"/*/ c */", false, ""}, {"/*/*/", false, ""}, {"/*// c //*/", false, ""}, {"/*/ c /*/", false, ""}, {"/* * **** / */", false, ""}}
	for _, t1 := range pieces {
		for _, t2 := range pieces {
			for _, cm := range comments {
				for _, pre := range []string{"", "{$x}", "{sp}", "{call .empty /}", "{call .empty}{/call}", "y/* d */"} {
					t1, t2, cm, pre := t1, t2, cm, pre
					src := pre + t1 + cm.src
					src += cm.term + t2
					// is the line comment really a comment? only after whitespace (or at the very start of the file, which a template body never is)
					isComment := true
					if cm.line {
						before := pre + t1
						if before == "" {
							before = "}" // the template tag
						}
						last := before[len(before)-1]
						isComment = isWS(last)
					}
					expectChars := squeeze(prePrinted(pre) + t1 + t2)
					if !isComment {
						expectChars = squeeze(prePrinted(pre) + t1 + cm.src + t2)
					}
					add(c15item{body: src, ctx: "comment", sigcls: fmt.Sprintf("comment:%q ended by %q after %q", cm.src, cm.term, lastByteClass(pre+t1)), weak: func(out string) string {
						if squeeze(out) != expectChars {
							return fmt.Sprintf("non-whitespace characters %q, want %q", squeeze(out), expectChars)
						}
						return ""
					}})
				}
			}
		}
	}
	// characters whose code point ends in the byte of '<', '>' or NUL (U+013C, U+013E, U+0100, U+4E3E, U+1F600,
	// U+4E3C) are ordinary characters: a line break next to them joins with one space.
	for _, r := range []string{"\u013c", "\u013e", "\u0100", "\u4e3e", "\U0001F600", "\u4e3c", "\u203c"} {
		for _, t := range []string{r + "\n" + r, "a\n" + r, r + "\na", r + " \n " + r, r + "\r\n" + r, "<\n" + r, r + "\n>"} {
			add(c15item{body: "{$x}" + t + "{$x}", want: "X" + refJoinLines(t) + "X", ctx: "wide-rune", sigcls: "join-wide-rune:" + textShape(strings.ReplaceAll(t, r, "é"))})
		}
	}
	// text that must not be mistaken for a comment
	for _, t := range []string{"{call .empty /}//host/p", "{call .empty /}//", "a/* c *///b", "/* c *///b c", "{call .empty /}/*c*/x", "{call .empty /}// c\nz"} {
		t := t
		want := map[string]string{"{call .empty /}//host/p": "//host/p", "{call .empty /}//": "//", "a/* c *///b": "a//b", "/* c *///b c": "//bc", "{call .empty /}/*c*/x": "x", "{call .empty /}// c\nz": "//cz"}[t]
		add(c15item{body: "[" + t + "]", ctx: "not-a-comment", sigcls: "not-a-comment-after-tag:" + t, weak: func(out string) string {
			if squeeze(out) != "["+want+"]" {
				return fmt.Sprintf("non-whitespace characters %q, want %q", squeeze(out), "["+want+"]")
			}
			return ""
		}})
	}
	for _, t := range []string{"http://x", "a://b", "x//y", "a/b", "a*/b", "a/ /b", "1/2//3", "<a href=\"http://x/y\">", "x:// y", "a//"} {
		add(c15item{body: "{$x}" + t + "{$x}", want: "X" + refJoinLines(t) + "X", ctx: "not-a-comment", sigcls: "not-a-comment:" + t})
		add(c15item{body: t, want: refJoinLines(t), ctx: "not-a-comment", sigcls: "not-a-comment:" + t})
	}
	flush()
	// literal blocks and special-character commands emit exactly their characters.
	for l := 0; l <= 4; l++ {
		for _, t := range texts[l] {
			add(c15item{body: "{$x}{literal}" + t + "{/literal}{$x}", want: "X" + t + "X", ctx: "literal", sigcls: "literal:" + textShape(t)})
		}
	}
	for _, t := range []string{"{", "}", "{}", "{$x}", "{{x}}", "{if}", "/* c */", "// c", "  ", "\n", " \n ", "{/literal", "{literal}"} {
		add(c15item{body: "a{literal}" + t + "{/literal}b", want: "a" + t + "b", ctx: "literal", sigcls: "literal-special:" + t})
		add(c15item{body: "a {{literal}}" + t + "{{/literal}} b", want: "a " + t + " b", ctx: "literal", sigcls: "literal-special2:" + t})
	}
	specials := []struct{ src, out string }{{"{sp}", " "}, {"{nil}", ""}, {"{\\n}", "\n"}, {"{\\r}", "\r"}, {"{\\t}", "\t"}, {"{lb}", "{"}, {"{rb}", "}"}}
	for _, a := range specials {
		for _, b := range specials {
			for _, t := range []string{"", " ", "\n", "a", " a ", "\na\n"} {
				add(c15item{body: a.src + t + b.src, want: a.out + refJoinLines(t) + b.out, ctx: "special", sigcls: "special:" + a.src + b.src})
			}
		}
	}
	flush()
}

func prePrinted(pre string) string {
	switch pre {
	case "{$x}":
		return "X"
	case "y/* d */":
		return "y"
	}
	return ""
}

func squeeze(s string) string {
	var b strings.Builder
	for i := 0; i < len(s); i++ {
		if !isWS(s[i]) {
			b.WriteByte(s[i])
		}
	}
	return b.String()
}

func lastByteClass(s string) string {
	if s == "" {
		return "tag"
	}
	switch b := s[len(s)-1]; {
	case b == '}':
		return "tag"
	case isWS(b):
		return "ws"
	}
	return "char"
}

// textShape abstracts a text run: letters -> a, each whitespace kind kept.
func textShape(t string) string {
	t = strings.ReplaceAll(t, "é", "a")
	t = strings.ReplaceAll(t, "\n", "N")
	t = strings.ReplaceAll(t, "\r", "R")
	t = strings.ReplaceAll(t, "\t", "T")
	t = strings.ReplaceAll(t, " ", "_")
	return t
}

func runC15Batch(c *Ctx, items []c15item) {
	var src strings.Builder
	src.WriteString("{namespace n}\n/** */\n{template .empty}{/template}\n")
	for i, it := range items {
		doc := "/** */"
		if strings.Contains(reLiteral.ReplaceAllString(it.body, ""), "$x") {
			doc = "/** @param? x */"
		}
		fmt.Fprintf(&src, "%s\n{template .t%d}%s{/template}\n", doc, i, it.body)
	}
	outs := make([]string, len(items))
	errs := make([]string, len(items))
	var cerr error
	v := vrt.Run(vrt.Options{Fuel: 50000000}, func() {
		var tofu *soyhtml.Tofu
		tofu, cerr = soy.NewBundle().AddTemplateString("c15.soy", src.String()).CompileToTofu()
		if cerr != nil {
			return
		}
		d := data.Map{"x": data.String("X")}
		for i := range items {
			var buf bytes.Buffer
			if err := tofu.NewRenderer(fmt.Sprintf("n.t%d", i)).Execute(&buf, d); err != nil {
				errs[i] = firstLineOf(err.Error())
			}
			outs[i] = buf.String()
		}
	})
	if (cerr != nil || v.Panic != nil || v.Exhausted) && len(items) > 1 {
		// isolate the offending template(s)
		for _, it := range items {
			runC15Batch(c, []c15item{it})
		}
		return
	}
	for i, it := range items {
		cs := c15case{Body: it.body, Ctx: it.ctx}
		key := it.ctx + "\x00" + it.body
		switch {
		case v.Exhausted:
			c.Observe(key, "hang")
			c.Violate("terminates", "hang", "hang:"+it.sigcls, cs, "renders", "fuel exhausted")
		case v.Panic != nil:
			c.Observe(key, "panic")
			c.Violate("no panic", "panic", "panic:"+it.sigcls, cs, "renders", fmt.Sprint(v.Panic))
		case cerr != nil:
			c.Observe(key, "rejected")
			c.Nontrivial()
			c.Violate("template text is accepted and normalised", "mismatch", "reject:"+it.sigcls, cs, fmt.Sprintf("%q", it.want), "compile error: "+cerr.Error())
		case errs[i] != "":
			c.Observe(key, "render error")
			c.Violate("renders", "mismatch", "err:"+it.sigcls, cs, fmt.Sprintf("%q", it.want), errs[i])
		default:
			c.Observe(key, outs[i])
			if it.body != "" {
				c.Nontrivial()
			}
			if it.weak != nil {
				if msg := it.weak(outs[i]); msg != "" {
					c.Violate("comments contribute nothing; every other non-whitespace character reaches the output in order", "mismatch", it.sigcls, cs, "comment-free characters", fmt.Sprintf("%q: %s", outs[i], msg))
				}
			} else if outs[i] != it.want {
				c.Violate("text is normalised by the line-joining rule and nothing else", "mismatch", it.sigcls, cs, fmt.Sprintf("%q", it.want), fmt.Sprintf("%q", outs[i]))
			}
		}
		if c.res.Cases%40009 == 0 {
			c.Sample(map[string]any{"body": it.body, "context": it.ctx, "expected": it.want, "observed": outs[i]})
		}
	}
}
