package main

import (
	"os"
	"path/filepath"
	"sort"
)

// genCorpus: small valid Soy files that together use every tag form.
var genCorpus = []string{
	"{namespace a}\n\n/** d */\n{template .t}\nhi\n{/template}\n",
	"{namespace a.b autoescape=\"false\"}\n\n/**\n * @param x\n * @param? y\n */\n{template .t private=\"true\"}\n{$x}{$y ?: 1}\n{/template}\n",
	"{namespace a}\n{template .t}\n{@param x: int}\n{@param? y: list<string>}\n{$x}{if $y}{$y[0]}{/if}\n{/template}\n",
	"{namespace a}\n/** @param x */\n{template .t autoescape=\"contextual\"}\n{if $x}a{elseif $x == 2}b{else}c{/if}\n{/template}\n",
	"{namespace a}\n/** @param x */\n{template .t}\n{switch $x}{case 1}a{case 2, 'b'}c{default}d{/switch}\n{/template}\n",
	"{namespace a}\n/** @param l */\n{template .t}\n{foreach $i in $l}{$i}{if not isLast($i)},{/if}{ifempty}none{/foreach}\n{/template}\n",
	"{namespace a}\n/** */\n{template .t}\n{for $i in range(1, 10, 2)}{$i}{index($i)}{/for}\n{/template}\n",
	"{namespace a}\n/** @param x */\n{template .t}\n{let $v: $x + 1 /}{let $w}b{$v}{/let}{$w}\n{/template}\n",
	"{namespace a}\n/** @param x */\n{template .t}\n{call .u data=\"all\"/}{call a.u}{param x: 1/}{/call}{call name=\".u\" data=\"$x\"}{param x}c{/param}{/call}\n{/template}\n/** @param x */\n{template .u}\n{$x}\n{/template}\n",
	"{namespace a}\n{alias b.c}\n/** */\n{template .t}\n{call c.u}{param key=\"x\" value=\"1\"/}{param key=\"y\"}z{/param}{/call}\n{/template}\n",
	"{namespace a}\n/** @param n\n @param p */\n{template .t}\n{msg desc=\"d\" meaning=\"m\"}Hello <b>{$p}</b> {$p.q|truncate:5}{/msg}{msg desc=\"\"}{plural $n}{case 0}none{case 1}one{default}{$n} many{/plural}{/msg}\n{/template}\n",
	"{namespace a}\n/** @param x */\n{template .t}\n{css foo}{css $x, bar-baz}{literal}{a}} b{/literal}{log}l{$x}{/log}{debugger}\n{/template}\n",
	"{namespace a}\n/** */\n{template .t}\n{sp}{nil}{\\n}{\\r}{\\t}{lb}{rb}  // comment\n/* block */ x // c2\nhttp://x.y\n{/template}\n",
	"{namespace a}\n/** @param x */\n{template .t}\n{print $x}{$x|id}{$x|truncate:5,true|escapeHtml}{'a\\'b\\u00e9'}{-1}{not $x}{[1,2]}{['a':1,'b':[:]]}{$x.a?.b[0]?[1].2?.3}\n{/template}\n",
	"{namespace a}\n/** @param x */\n{template .t}\n{{$x}}{{if $x}}a{{/if}}{{literal}}{}{{/literal}}{{css a}}{{sp}}\n{/template}\n",
	"{namespace a}\n/** @param x */\n{template .t}\n{$x ? 1 : 2}{$x ?: 3}{1 + 2 * 3 - 4 / 5 % 6}{$x and true or not false}{1 < 2}{1 <= 2}{1 > 2}{1 >= 2}{1 == 2}{1 != 2}{0x1F}{1.5e3}{GLOBAL.name}{length($x)}{max(1, min(2,3))}\n{/template}\n",
	"{namespace a}\n/** @param x */\n{deltemplate .t}{delcall .u}{delpackage p}\n",
}

// loadCorpus returns the generated corpus plus the repository's testdata/*.soy.
func loadCorpus() []string {
	out := append([]string(nil), genCorpus...)
	files, _ := filepath.Glob("/repo/testdata/*.soy")
	sort.Strings(files)
	for _, f := range files {
		if b, err := os.ReadFile(f); err == nil {
			out = append(out, string(b))
		}
	}
	return out
}

// fragDict: the C05 fragment dictionary (DESIGN.md Appendix B).
var fragDict = []string{
	"", "{namespace a}", "{namespace a.b autoescape=\"false\"}", "{template .t}", "{template .t private=\"true\"}", "{/template}",
	"/**", " * @param x", " * @param? y", "*/", "{@param x: int}", "{@param? x: ", "{alias a.b}",
	"{if $x}", "{elseif $y}", "{else}", "{/if}", "{switch $x}", "{case 1}", "{case 1, 'a'}", "{default}", "{/switch}",
	"{foreach $i in $l}", "{ifempty}", "{/foreach}", "{for $i in range(3)}", "{/for}",
	"{let $v: 1/}", "{let $v}", "{/let}", "{call .t}", "{call .t/}", "{call a.t data=\"all\"/}", "{call name=\".t\" data=\"$x\"}", "{call name=\"\"/}", "{call .t data=\"\"/}",
	"{param k: 1/}", "{param k}", "{param key=\"k\" value=\"1\"/}", "{param key=\"\" value=\"\"/}", "{/param}", "{/call}",
	"{msg desc=\"d\"}", "{msg meaning=\"m\" desc=\"d\"}", "{/msg}", "{plural $n}", "{/plural}",
	"{css a}", "{css $x, a}", "{css ", "{literal}", "{/literal}", "{log}", "{/log}", "{debugger}",
	"{sp}", "{nil}", "{\\n}", "{lb}", "{rb}", "{print $x}", "{$x}", "{$x|id}", "{$x|truncate:5,true}", "{$x.a?.b[0]?[1]}",
	"{'s'}", "{'s", "{1 + }", "{[1, 2]}", "{['a': 1]}", "{f($x)}", "{{$x}}", "{{", "}}", "{", "}", "/}",
	" text ", "<a href=\"x\">", "// c", "\n", "/* c */", "/* c", "\"", "'", "$", "|", ":", "?", "{@param", "{call", "{plural", "{switch", "{msg", "{let $v", "{param",
}

// exprDict: expression token dictionary for parse.Expr sequences.
var exprDict = []string{
	"", "1", "-", "2.5", "'s'", "'s", "$x", ".a", "?.b", ".0", "?.1", "[", "]", "?[", "(", ")", ",", ":", "?", "?:",
	"+", "*", "/", "%", "==", "!=", "<", ">=", "and", "or", "not", "null", "true", "f", "f(", "0x1F", "1e3", "|", "}", "{", " ", "\n", "$ij.x", "G.h", "=", "@", "é", "\\",
}

// ctxWrappers: contexts in which fragment sequences are placed.
type wrapper struct{ name, pre, post string }

var ctxWrappers = []wrapper{
	{"file", "", ""},
	{"template", "{namespace a}\n/** @param x */\n{template .t}\n", "\n{/template}\n"},
	{"if", "{namespace a}\n/** @param x */\n{template .t}\n{if $x}", "{/if}\n{/template}\n"},
	{"switch", "{namespace a}\n/** @param x */\n{template .t}\n{switch $x}{case 1}", "{/switch}\n{/template}\n"},
	{"switchhead", "{namespace a}\n/** @param x */\n{template .t}\n{switch $x}", "{/switch}\n{/template}\n"},
	{"msg", "{namespace a}\n/** @param x */\n{template .t}\n{msg desc=\"d\"}", "{/msg}\n{/template}\n"},
	{"plural", "{namespace a}\n/** @param x */\n{template .t}\n{msg desc=\"d\"}{plural $x}{case 1}", "{default}o{/plural}{/msg}\n{/template}\n"},
	{"call", "{namespace a}\n/** @param x */\n{template .t}\n{call .t}", "{/call}\n{/template}\n"},
	{"param", "{namespace a}\n/** @param x */\n{template .t}\n{call .t}{param x}", "{/param}{/call}\n{/template}\n"},
	{"let", "{namespace a}\n/** @param x */\n{template .t}\n{let $v}", "{/let}{$v}\n{/template}\n"},
	{"for", "{namespace a}\n/** @param x */\n{template .t}\n{foreach $i in $x}", "{/foreach}\n{/template}\n"},
	{"soydoc", "{namespace a}\n/** ", " */\n{template .t}\n{/template}\n"},
	{"literal", "{namespace a}\n{template .t}\n{literal}", "{/literal}\n{/template}\n"},
	{"log", "{namespace a}\n{template .t}\n{log}", "{/log}\n{/template}\n"},
}

// byteCtx: contexts for the exhaustive small byte strings.
var byteCtx = []wrapper{
	{"text", "{namespace a}\n{template .t}\n", "\n{/template}\n"},
	{"tag", "{namespace a}\n{template .t}\n{", "}\n{/template}\n"},
	{"string", "{namespace a}\n{template .t}\n{'", "'}\n{/template}\n"},
	{"soydoc", "{namespace a}\n/** ", " */\n{template .t}\n{/template}\n"},
	{"css", "{namespace a}\n{template .t}\n{css ", "}\n{/template}\n"},
	{"literal", "{namespace a}\n{template .t}\n{literal}", "{/literal}\n{/template}\n"},
	{"bare", "", ""},
	{"attr", "{namespace a}\n{template .t}\n{call .t data=\"", "\"/}\n{/template}\n"},
}

// classReps: one representative byte per lexer character class.
var classReps = []byte{'a', 'Z', '_', '0', '9', ' ', '\t', '\n', '\r', '{', '}', '/', '*', '\\', '\'', '"', '$', '.', '?', ':', ',', '|', '-', '+', '=', '<', '>', '!', '(', ')', '[', ']', '@', '%', '&', 0x00, 0x7f, 0x80, 0xc3, 0xa9, 0xff, 'x', 'e'}
