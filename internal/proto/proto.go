// Package proto is the worker <-> driver protocol.
package proto

// Violation is one failing case.
type Violation struct {
	Property string `json:"property"`
	Clause   string `json:"clause"`   // which part of the statement failed
	Kind     string `json:"kind"`     // mismatch | hang | panic | leak | deadlock | process-death | ...
	Sig      string `json:"sig"`      // signature used for known-finding matching
	Input    any    `json:"input"`    // the failing case, replayable
	Expected string `json:"expected"` // what the oracle demanded
	Observed string `json:"observed"` // what the implementation did
	Build    string `json:"build"`    // instr | plain
	// replay coordinates: the case index in the deterministic enumeration of the check
	CaseIndex int64  `json:"case_index"`
	Tier      string `json:"tier"`
	Seed      int64  `json:"seed"`
}

// Result is what one worker reports.
type Result struct {
	Property   string            `json:"property"`
	Shard      int               `json:"shard"`
	Build      string            `json:"build"`
	Cases      int64             `json:"cases"`      // executions compared with the oracle (transitions)
	States     int64             `json:"states"`     // distinct canonical cases / states
	Nontrivial int64             `json:"nontrivial"` // distinct non-trivial cases
	ObsHash    uint64            `json:"obs_hash"`   // rolling hash over (case, observation)
	ObsCount   int64             `json:"obs_count"`  // observations hashed
	Violations []Violation       `json:"violations"` // capped per signature
	ViolCount  int64             `json:"viol_count"` // total failing cases
	SigCounts  map[string]int64  `json:"sig_counts"` // failing cases per signature
	Samples    []any             `json:"samples"`
	Exhaustive bool              `json:"exhaustive"`
	Caps       []string          `json:"caps"`     // caps / deadlines hit
	Counters   map[string]int64  `json:"counters"` // per-check counters (summed)
	Maxima     map[string]int64  `json:"maxima"`   // per-check maxima (max)
	Notes      map[string]string `json:"notes"`
	Outcomes   int64             `json:"outcomes"` // distinct observed outcomes (hash set size)
	InfraError string            `json:"infra_error"`
}
