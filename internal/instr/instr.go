// Package instr rewrites the current working tree of robfig/soy into an
// instrumented copy (a go build overlay).  /repo itself is never modified.
package instr

import (
	"bytes"
	"crypto/sha256"
	"encoding/hex"
	"encoding/json"
	"fmt"
	"go/ast"
	"go/printer"
	"go/token"
	"go/types"
	"os"
	"path/filepath"
	"sort"
	"strings"

	"golang.org/x/tools/go/ast/astutil"
	"golang.org/x/tools/go/packages"
)

const Version = "instr-v6"

const modPath = "github.com/robfig/soy"

// Report describes what the instrumenter did (goes into evidence files).
type Report struct {
	Packages     []string `json:"packages"`
	Files        int      `json:"files"`
	Ticks        int      `json:"tick_sites"`
	MapRanges    []string `json:"map_range_sites"`
	ChanOps      []string `json:"chan_op_sites"`
	GoStmts      []string `json:"go_sites"`
	SyncImports  []string `json:"sync_imports_shimmed"`
	Unowned      []string `json:"unowned_sites"`
	PackageVars  int      `json:"package_vars"`
	UnboundProbe bool     `json:"unbound_probe"`
	Key          string   `json:"key"`
}

// skipPkg lists packages that are not instrumented (no property exercises them
// through the library API; xgettext-soy is built and run as a real binary).
func skipPkg(path string) bool {
	return strings.HasSuffix(path, "/soyweb") || strings.HasSuffix(path, "/xgettext-soy")
}

// TreeKey hashes every non-test Go file of the repository plus the
// instrumenter version: the build-cache key.
func TreeKey(repo string, extra ...string) (string, error) {
	h := sha256.New()
	h.Write([]byte(Version))
	for _, e := range extra {
		h.Write([]byte(e))
	}
	var files []string
	err := filepath.Walk(repo, func(p string, info os.FileInfo, err error) error {
		if err != nil {
			return err
		}
		if info.IsDir() {
			if info.Name() == ".git" {
				return filepath.SkipDir
			}
			return nil
		}
		if strings.HasSuffix(p, ".go") || strings.HasSuffix(p, "go.mod") || strings.HasSuffix(p, ".js") {
			files = append(files, p)
		}
		return nil
	})
	if err != nil {
		return "", err
	}
	sort.Strings(files)
	for _, f := range files {
		b, err := os.ReadFile(f)
		if err != nil {
			return "", err
		}
		fmt.Fprintf(h, "%s %d\n", f, len(b))
		h.Write(b)
	}
	return hex.EncodeToString(h.Sum(nil))[:16], nil
}

type rewriter struct {
	fset   *token.FileSet
	info   *types.Info
	pkg    *types.Package
	rep    *Report
	n      int
	selN   int
	failed error
}

func (r *rewriter) site(pos token.Pos) string {
	p := r.fset.Position(pos)
	return fmt.Sprintf("%s:%d", strings.TrimPrefix(p.Filename, "/repo/"), p.Line)
}

func vrtCall(name string, args ...ast.Expr) *ast.CallExpr {
	return &ast.CallExpr{Fun: &ast.SelectorExpr{X: ast.NewIdent("vrt__"), Sel: ast.NewIdent(name)}, Args: args}
}

func tickStmt() ast.Stmt { return &ast.ExprStmt{X: vrtCall("Tick")} }

func (r *rewriter) prependTick(b *ast.BlockStmt) {
	if b == nil {
		return
	}
	b.List = append([]ast.Stmt{tickStmt()}, b.List...)
	r.rep.Ticks++
}

func (r *rewriter) isChan(e ast.Expr) bool {
	t := r.info.TypeOf(e)
	if t == nil {
		return false
	}
	_, ok := t.Underlying().(*types.Chan)
	return ok
}

func (r *rewriter) isMap(e ast.Expr) bool {
	t := r.info.TypeOf(e)
	if t == nil {
		return false
	}
	_, ok := t.Underlying().(*types.Map)
	return ok
}

// foreignChan reports whether the channel expression is a field of a value whose type is declared
// outside the repository (e.g. fsnotify's Watcher.Events): such channels are fed by goroutines
// the scheduler does not own and stay native.
func (r *rewriter) foreignChan(e ast.Expr) bool {
	sel, ok := e.(*ast.SelectorExpr)
	if !ok {
		return false
	}
	t := r.info.TypeOf(sel.X)
	if t == nil {
		return false
	}
	if p, ok := t.Underlying().(*types.Pointer); ok {
		t = p.Elem()
	}
	if n, ok := t.(*types.Named); ok && n.Obj().Pkg() != nil {
		return !strings.HasPrefix(n.Obj().Pkg().Path(), modPath)
	}
	return false
}

// rewriteSelect turns a select statement into a call of vrt.Select followed by a switch on the
// index of the clause that proceeded. It returns nil (statement stays native) if a clause
// communicates on a foreign channel or has a form the rewrite does not know.
func (r *rewriter) rewriteSelect(n *ast.SelectStmt) ast.Stmt {
	r.selN++
	iv, vv, okv := fmt.Sprintf("sel__i%d", r.selN), fmt.Sprintf("sel__v%d", r.selN), fmt.Sprintf("sel__ok%d", r.selN)
	hasDefault := "false"
	var args []ast.Expr
	var clauses []ast.Stmt
	for _, st := range n.Body.List {
		cc := st.(*ast.CommClause)
		if cc.Comm == nil {
			hasDefault = "true"
			clauses = append(clauses, &ast.CaseClause{Body: cc.Body})
			continue
		}
		idx := len(args)
		var pre []ast.Stmt
		recvOf := func(e ast.Expr) ast.Expr {
			if u, ok := e.(*ast.UnaryExpr); ok && u.Op == token.ARROW {
				return u.X
			}
			if p, ok := e.(*ast.ParenExpr); ok {
				if u, ok := p.X.(*ast.UnaryExpr); ok && u.Op == token.ARROW {
					return u.X
				}
			}
			return nil
		}
		switch cm := cc.Comm.(type) {
		case *ast.SendStmt:
			if r.foreignChan(cm.Chan) {
				return nil
			}
			args = append(args, vrtCall("CaseSend", cm.Chan, cm.Value))
		case *ast.ExprStmt:
			ch := recvOf(cm.X)
			if ch == nil || r.foreignChan(ch) {
				return nil
			}
			args = append(args, vrtCall("CaseRecv", ch))
		case *ast.AssignStmt:
			if len(cm.Rhs) != 1 || len(cm.Lhs) < 1 || len(cm.Lhs) > 2 {
				return nil
			}
			ch := recvOf(cm.Rhs[0])
			if ch == nil || r.foreignChan(ch) {
				return nil
			}
			args = append(args, vrtCall("CaseRecv", ch))
			rhs := []ast.Expr{vrtCall("SelVal", ch, ast.NewIdent(vv))}
			if len(cm.Lhs) == 2 {
				rhs = append(rhs, ast.NewIdent(okv))
			}
			pre = append(pre, &ast.AssignStmt{Lhs: cm.Lhs, Tok: cm.Tok, Rhs: rhs})
		default:
			return nil
		}
		clauses = append(clauses, &ast.CaseClause{
			List: []ast.Expr{&ast.BasicLit{Kind: token.INT, Value: fmt.Sprint(idx)}},
			Body: append(pre, cc.Body...),
		})
	}
	call := vrtCall("Select", append([]ast.Expr{ast.NewIdent(hasDefault)}, args...)...)
	return &ast.BlockStmt{List: []ast.Stmt{
		&ast.AssignStmt{Lhs: []ast.Expr{ast.NewIdent(iv), ast.NewIdent(vv), ast.NewIdent(okv)}, Tok: token.DEFINE, Rhs: []ast.Expr{call}},
		&ast.AssignStmt{Lhs: []ast.Expr{ast.NewIdent("_"), ast.NewIdent("_")}, Tok: token.ASSIGN, Rhs: []ast.Expr{ast.NewIdent(vv), ast.NewIdent(okv)}},
		&ast.SwitchStmt{Tag: ast.NewIdent(iv), Body: &ast.BlockStmt{List: clauses}},
	}}
}

func (r *rewriter) rewriteFile(f *ast.File) {
	// package sync and sync/atomic are replaced by shims whose operations are scheduling points.
	for _, im := range f.Imports {
		shim, name := "", ""
		switch im.Path.Value {
		case `"sync"`:
			shim, name = `"verif/vrt/vsync"`, "sync"
		case `"sync/atomic"`:
			shim, name = `"verif/vrt/vatomic"`, "atomic"
		default:
			continue
		}
		r.rep.SyncImports = append(r.rep.SyncImports, r.site(im.Pos())+" "+im.Path.Value)
		im.Path.Value = shim
		if im.Name == nil {
			im.Name = ast.NewIdent(name)
		}
	}
	// pass 1: structural replacements (post-order so children are done first).
	skip := map[ast.Node]bool{}
	astutil.Apply(f, func(c *astutil.Cursor) bool {
		if cc, ok := c.Node().(*ast.CommClause); ok && cc.Comm != nil {
			// channel operations that are select cases stay native (unowned).
			ast.Inspect(cc.Comm, func(n ast.Node) bool {
				if n != nil {
					skip[n] = true
				}
				return true
			})
		}
		return true
	}, func(c *astutil.Cursor) bool {
		if skip[c.Node()] {
			return true
		}
		switch n := c.Node().(type) {
		case *ast.SelectStmt:
			_, labelled := c.Parent().(*ast.LabeledStmt)
			if repl := r.rewriteSelect(n); repl != nil && !labelled {
				r.rep.ChanOps = append(r.rep.ChanOps, "select "+r.site(n.Pos()))
				c.Replace(repl)
			} else {
				r.rep.Unowned = append(r.rep.Unowned, "select at "+r.site(n.Pos()))
			}
		case *ast.GoStmt:
			r.rep.GoStmts = append(r.rep.GoStmts, r.site(n.Pos()))
			lit := &ast.FuncLit{
				Type: &ast.FuncType{Params: &ast.FieldList{}},
				Body: &ast.BlockStmt{List: []ast.Stmt{&ast.ExprStmt{X: n.Call}}},
			}
			c.Replace(&ast.ExprStmt{X: vrtCall("Go", lit)})
		case *ast.SendStmt:
			r.rep.ChanOps = append(r.rep.ChanOps, "send "+r.site(n.Pos()))
			c.Replace(&ast.ExprStmt{X: vrtCall("Send", n.Chan, n.Value)})
		case *ast.AssignStmt:
			if len(n.Lhs) == 2 && len(n.Rhs) == 1 {
				if u, ok := n.Rhs[0].(*ast.UnaryExpr); ok && u.Op == token.ARROW {
					r.rep.ChanOps = append(r.rep.ChanOps, "recv2 "+r.site(n.Pos()))
					n.Rhs[0] = vrtCall("RecvOK", u.X)
				}
			}
		case *ast.ValueSpec:
			if len(n.Names) == 2 && len(n.Values) == 1 {
				if u, ok := n.Values[0].(*ast.UnaryExpr); ok && u.Op == token.ARROW {
					r.rep.ChanOps = append(r.rep.ChanOps, "recv2 "+r.site(n.Pos()))
					n.Values[0] = vrtCall("RecvOK", u.X)
				}
			}
		case *ast.UnaryExpr:
			if n.Op == token.ARROW {
				// a two-valued receive was already rewritten through its parent
				// only after this post-visit; so check the parent here.
				switch p := c.Parent().(type) {
				case *ast.AssignStmt:
					if len(p.Lhs) == 2 && len(p.Rhs) == 1 {
						return true
					}
				case *ast.ValueSpec:
					if len(p.Names) == 2 && len(p.Values) == 1 {
						return true
					}
				}
				r.rep.ChanOps = append(r.rep.ChanOps, "recv "+r.site(n.Pos()))
				c.Replace(vrtCall("Recv", n.X))
			}
		case *ast.CallExpr:
			if id, ok := n.Fun.(*ast.Ident); ok && id.Name == "close" && len(n.Args) == 1 {
				if _, isBuiltin := r.info.Uses[id].(*types.Builtin); isBuiltin {
					r.rep.ChanOps = append(r.rep.ChanOps, "close "+r.site(n.Pos()))
					c.Replace(vrtCall("Close", n.Args[0]))
				}
			}
		case *ast.RangeStmt:
			switch {
			case r.isChan(n.X):
				r.rep.ChanOps = append(r.rep.ChanOps, "range "+r.site(n.Pos()))
				var key ast.Expr = ast.NewIdent("_")
				tok := token.DEFINE
				if n.Key != nil {
					key = n.Key
					tok = n.Tok
				}
				recv := &ast.AssignStmt{
					Lhs: []ast.Expr{key, ast.NewIdent("ok__vrt")},
					Tok: token.DEFINE,
					Rhs: []ast.Expr{vrtCall("RecvOK", n.X)},
				}
				if tok == token.ASSIGN {
					// for v = range ch : assign to existing variable
					recv = &ast.AssignStmt{
						Lhs: []ast.Expr{ast.NewIdent("tmp__vrt"), ast.NewIdent("ok__vrt")},
						Tok: token.DEFINE,
						Rhs: []ast.Expr{vrtCall("RecvOK", n.X)},
					}
				}
				body := []ast.Stmt{
					recv,
					&ast.IfStmt{
						Cond: &ast.UnaryExpr{Op: token.NOT, X: ast.NewIdent("ok__vrt")},
						Body: &ast.BlockStmt{List: []ast.Stmt{&ast.BranchStmt{Tok: token.BREAK}}},
					},
				}
				if tok == token.ASSIGN {
					body = append(body, &ast.AssignStmt{Lhs: []ast.Expr{key}, Tok: token.ASSIGN, Rhs: []ast.Expr{ast.NewIdent("tmp__vrt")}})
				}
				body = append(body, n.Body.List...)
				c.Replace(&ast.ForStmt{Body: &ast.BlockStmt{List: body}})
			case r.isMap(n.X):
				r.rep.MapRanges = append(r.rep.MapRanges, r.site(n.Pos()))
				n.X = vrtCall("MapSeq", n.X)
			}
		}
		return true
	})
	// pass 2: ticks at function entries and loop bodies.
	ast.Inspect(f, func(n ast.Node) bool {
		switch n := n.(type) {
		case *ast.FuncDecl:
			r.prependTick(n.Body)
		case *ast.FuncLit:
			// do not tick inside the closure wrapped around a go statement twice: harmless.
			r.prependTick(n.Body)
		case *ast.ForStmt:
			r.prependTick(n.Body)
		case *ast.RangeStmt:
			r.prependTick(n.Body)
		}
		return true
	})
	used := false
	ast.Inspect(f, func(n ast.Node) bool {
		if sel, ok := n.(*ast.SelectorExpr); ok {
			if id, ok := sel.X.(*ast.Ident); ok && id.Name == "vrt__" {
				used = true
			}
		}
		return !used
	})
	if used {
		astutil.AddNamedImport(r.fset, f, "vrt__", "verif/vrt")
	}
}

// Instrument loads repo, writes instrumented files under outDir and returns
// the overlay map (original path -> replacement path).
func Instrument(repo, outDir string) (map[string]string, *Report, error) {
	cfg := &packages.Config{
		Mode: packages.NeedName | packages.NeedFiles | packages.NeedCompiledGoFiles | packages.NeedSyntax |
			packages.NeedTypes | packages.NeedTypesInfo | packages.NeedImports | packages.NeedDeps,
		Dir:   repo,
		Tests: false,
		Env:   append(os.Environ(), "GOFLAGS=-mod=mod", "GOPROXY=off", "GOSUMDB=off", "GOTOOLCHAIN=local"),
	}
	pkgs, err := packages.Load(cfg, "./...")
	if err != nil {
		return nil, nil, err
	}
	rep := &Report{}
	overlay := map[string]string{}
	var errs []string
	for _, p := range pkgs {
		for _, e := range p.Errors {
			errs = append(errs, e.Error())
		}
	}
	if len(errs) > 0 {
		return nil, nil, fmt.Errorf("repository does not type-check: %s", strings.Join(errs, "; "))
	}
	sort.Slice(pkgs, func(i, j int) bool { return pkgs[i].PkgPath < pkgs[j].PkgPath })
	for _, p := range pkgs {
		if !strings.HasPrefix(p.PkgPath, modPath) || skipPkg(p.PkgPath) || p.Name == "main" {
			continue
		}
		rep.Packages = append(rep.Packages, p.PkgPath)
		rel := strings.TrimPrefix(strings.TrimPrefix(p.PkgPath, modPath), "/")
		dir := filepath.Join(outDir, "src", rel)
		if err := os.MkdirAll(dir, 0o755); err != nil {
			return nil, nil, err
		}
		var probe bool
		for i, f := range p.Syntax {
			orig := p.CompiledGoFiles[i]
			rw := &rewriter{fset: p.Fset, info: p.TypesInfo, pkg: p.Types, rep: rep}
			if strings.HasSuffix(p.PkgPath, "/soyhtml") && canProbe(p) {
				for _, d := range f.Decls {
					if fd, ok := d.(*ast.FuncDecl); ok && fd.Name.Name == "lookup" && fd.Recv != nil && recvName(fd) == "scope" {
						fd.Name = ast.NewIdent("lookup__verif")
						probe = true
					}
				}
			}
			rw.rewriteFile(f)
			var buf bytes.Buffer
			buf.WriteString("//go:build go1.23\n\n")
			// drop an existing build constraint comment group? none exist in soy.
			if err := printer.Fprint(&buf, p.Fset, f); err != nil {
				return nil, nil, err
			}
			out := filepath.Join(dir, filepath.Base(orig))
			if err := os.WriteFile(out, buf.Bytes(), 0o644); err != nil {
				return nil, nil, err
			}
			overlay[orig] = out
			rep.Files++
		}
		// generated file: package variable registry (+ probe wrapper).
		var gen bytes.Buffer
		gen.WriteString("//go:build go1.23\n\npackage " + p.Name + "\n\nimport vrt__ \"verif/vrt\"\n")
		if probe {
			gen.WriteString("import data__ \"github.com/robfig/soy/data\"\n")
		}
		gen.WriteString("\nfunc init() {\n")
		fmt.Fprintf(&gen, "\tvrt__.MarkInstrumented(%q)\n", p.PkgPath)
		scope := p.Types.Scope()
		names := scope.Names()
		sort.Strings(names)
		for _, name := range names {
			if v, ok := scope.Lookup(name).(*types.Var); ok && name != "_" {
				_ = v
				fmt.Fprintf(&gen, "\tvrt__.RegisterVar(%q, &%s)\n", p.Name+"."+name, name)
				rep.PackageVars++
			}
		}
		gen.WriteString("}\n")
		if probe {
			rep.UnboundProbe = true
			gen.WriteString(`
// lookup wraps the original scope.lookup and reports lookups that no frame binds.
func (s scope) lookup(k string) data__.Value {
	vrt__.Tick()
	var found bool
	for i := range s {
		if _, ok := s[i].vars[k]; ok {
			found = true
			break
		}
	}
	if !found {
		vrt__.Event("unbound:" + k)
	}
	return s.lookup__verif(k)
}
`)
		}
		genOrig := filepath.Join(repo, rel, "zz_verif_gen.go")
		genOut := filepath.Join(dir, "zz_verif_gen.go")
		if err := os.WriteFile(genOut, gen.Bytes(), 0o644); err != nil {
			return nil, nil, err
		}
		overlay[genOrig] = genOut
	}
	sort.Strings(rep.MapRanges)
	sort.Strings(rep.ChanOps)
	b, _ := json.MarshalIndent(map[string]any{"Replace": overlay}, "", " ")
	if err := os.WriteFile(filepath.Join(outDir, "overlay.json"), b, 0o644); err != nil {
		return nil, nil, err
	}
	rb, _ := json.MarshalIndent(rep, "", " ")
	os.WriteFile(filepath.Join(outDir, "instr_report.json"), rb, 0o644)
	return overlay, rep, nil
}

func recvName(fd *ast.FuncDecl) string {
	if fd.Recv == nil || len(fd.Recv.List) == 0 {
		return ""
	}
	t := fd.Recv.List[0].Type
	if s, ok := t.(*ast.StarExpr); ok {
		t = s.X
	}
	if id, ok := t.(*ast.Ident); ok {
		return id.Name
	}
	return ""
}

// canProbe checks that soyhtml still has `type scope []scopeframe` with a map
// field `vars` and a method lookup(string) data.Value on the value receiver.
func canProbe(p *packages.Package) bool {
	obj := p.Types.Scope().Lookup("scope")
	if obj == nil {
		return false
	}
	named, ok := obj.Type().(*types.Named)
	if !ok {
		return false
	}
	sl, ok := named.Underlying().(*types.Slice)
	if !ok {
		return false
	}
	st, ok := sl.Elem().Underlying().(*types.Struct)
	if !ok {
		return false
	}
	hasVars := false
	for i := 0; i < st.NumFields(); i++ {
		if st.Field(i).Name() == "vars" {
			if _, ok := st.Field(i).Type().Underlying().(*types.Map); ok {
				hasVars = true
			}
		}
	}
	if !hasVars {
		return false
	}
	for i := 0; i < named.NumMethods(); i++ {
		m := named.Method(i)
		if m.Name() != "lookup" {
			continue
		}
		sig := m.Type().(*types.Signature)
		if _, ptr := sig.Recv().Type().(*types.Pointer); ptr {
			return false
		}
		if sig.Params().Len() == 1 && sig.Results().Len() == 1 &&
			types.TypeString(sig.Params().At(0).Type(), nil) == "string" &&
			strings.HasSuffix(types.TypeString(sig.Results().At(0).Type(), nil), "soy/data.Value") {
			return true
		}
	}
	return false
}
