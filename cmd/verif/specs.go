package main

type spec struct {
	LevelText        string
	LevelNote        string
	Technique        string
	Level            string
	Rule             string
	Bounds           map[string]string
	Assumptions      []string
	Plain            bool  // validate against the plain build
	QuickStride      int64 // plain validation stride
	ThoroughStride   int64
	QuickDeadline    int // soft per-worker deadline, seconds
	ThoroughDeadline int
	Race             bool
	OrderSensitive   bool // plain build may legitimately differ in map order
}

var commonAssumptions = []string{
	"bounded scopes: nothing is claimed outside the stated alphabets and size bounds",
	"the overlay instrumentation is behaviour-preserving (checked: every explored case is re-run on the uninstrumented build and the observation digests compared)",
	"reference models in /verif/harness are the trusted base",
}

var specs = map[string]spec{
	"C01": {
		LevelText: "bounded exhaustive enumeration of expression programs (every operator x operand-class pair, every two-level nesting with minimal and redundant parentheses, every syntactic position, data-reference chains, every built-in function) compiled and rendered by the real implementation and compared with an independent reference evaluator; every case is replayed on the uninstrumented build",
		LevelNote: "the reference evaluator (harness/ref_expr.go, DESIGN.md Appendix A) is the trusted base; cells the language leaves open are checked for termination/no panic only",
		Technique: "bounded exhaustive exploration of programs against a reference model (explicit enumeration, fuel-bounded executions)",
		Level:     "model_checking",
		Rule:      "a state is a distinct generated template (expression x syntactic position x parenthesisation); a transition is one compile+render compared with the reference evaluator; non-trivial = the reference defines the result (value or mandatory error), i.e. not an unspecified cell",
		Bounds: map[string]string{
			"quick":    "S1 all 14 binary ops x 50x50 atoms + unary/ternary; S2 all operator pairs in both groupings over 11 operand triples (minimal and full parentheses); S3 20 positions x 70 shapes + atoms; S4 reference chains <=2 accesses on 9 roots; S5 functions incl. calls nested in every argument position; S6 every argument-splicing context; S5/S6 also printed twice after an earlier call; S7 operands arriving as data",
			"thorough": "adds three-operator nestings (14^3 x 3 shapes x 11 triples), reference chains of 3 accesses, and the S1 and S5 strata in every one of the 20 syntactic positions",
		},
		Assumptions: commonAssumptions, Plain: true, QuickStride: 1, ThoroughStride: 1, QuickDeadline: 420, ThoroughDeadline: 3000,
	},
	"C17": {
		LevelText: "bounded exhaustive enumeration of expression trees (all operators in every nesting of depth <=3 that needs parentheses, literals needing escapes, data references, calls, list/map literals, print commands with directives); each is parsed by the real parser, printed by the real String(), parsed again and the two trees compared structurally; injectivity of the printed text is checked over the whole enumerated set",
		LevelNote: "the structural comparison ignores positions and the original spelling of string literals; trusted base: the reflective tree digest in harness/c17.go",
		Technique: "bounded exhaustive exploration of parse -> print -> parse round trips on the real parser and printer",
		Level:     "model_checking",
		Rule:      "a state is a distinct source text; a transition is one parse/print/parse round trip; non-trivial = the source parsed (so a printed form exists and was re-parsed)",
		Bounds: map[string]string{
			"quick":    "C01 strata S1,S2,S4,S5 (minimal and full parentheses), 70 shapes x 9 directive chains as print commands, 8^3 operator triples x 8 depth-3 shapes, 85 special literals incl. floats >= 1e21; the printed text must parse alone and, completely, inside brackets",
			"thorough": "14^3 operator triples, three-operator nestings of S2",
		},
		Assumptions: commonAssumptions, Plain: true, QuickStride: 1, ThoroughStride: 1, QuickDeadline: 420, ThoroughDeadline: 3000,
	},
	"C02": {
		LevelText: "bounded exhaustive enumeration of template bundles built from a command grammar whose variable names are forced to collide (params, lets and loop variables all named x or y), rendered by the real implementation for every data assignment and compared with an independent reference interpreter that implements block scoping and call-data rules",
		LevelNote: "the reference interpreter and rule checker (harness/ref_cmd.go, DESIGN.md Appendix A) are the trusted base; only rule-abiding programs are generated (the same reference checker is validated against the compiler in C07)",
		Technique: "bounded exhaustive exploration of programs x data against a reference interpreter",
		Level:     "model_checking",
		Rule:      "a state is a distinct generated bundle (entry template body x param-declaration style x file order); a transition is one render compared with the reference interpreter (counter renders); non-trivial = at least one data set for which the reference defines the output",
		Bounds: map[string]string{
			"quick":    "bodies: all lists of <=3 of 12 leaf statements; pre+block+post with 11 block kinds over all inner lists of <=2 leaves; two nested blocks over inner lists of <=1 leaf; up to 18 data assignments each; 2 files, alias/FQ/relative names, soydoc and header params, both file orders",
			"thorough": "two nested blocks over inner lists of <=2 leaves",
		},
		Assumptions: commonAssumptions, Plain: true, QuickStride: 1, ThoroughStride: 2, QuickDeadline: 420, ThoroughDeadline: 3000,
	},
	"C06": {
		LevelText: "bounded exhaustive enumeration of deliberately ill-typed programs (every operator x ordered pair of value classes, every function and directive x arity 0..4 x argument classes, range steps, missing $ij, unset optionals, failures 1-3 calls deep, duplicate template names in every file order), EvalExpr on every generated expression, ParseGlobals on every pair of line forms and every JSON data shape of depth <=2; each run under deterministic fuel with a panic observer",
		LevelNote: "the oracle is the invariant returns / no panic / result xor error; fuel limit 1e6 ticks per render of a tiny program (observed maximum is reported)",
		Technique: "bounded exhaustive exploration with invariant checking (fuel-bounded executions, panic observer)",
		Level:     "model_checking",
		Rule:      "a state is a distinct program/data/input; a transition is one compile+render, EvalExpr or ParseGlobals call; non-trivial = the program compiled (so the render ran) or the expression parsed",
		Bounds: map[string]string{
			"quick":    "24 value classes; 14 operators; 18 function names x arity 0-4; 12 directive names x arity 0-3; range over {-3,0,2,10}^2 x 5 steps; 8 failing prints x depth 1-3; float, huge and tiny range arguments; evaluation errors inside quoted attributes; 12 file orders; 34^2 globals inputs; 8+ JSON shapes squared",
			"thorough": "same space (already exhaustive for the alphabet)",
		},
		Assumptions: commonAssumptions, Plain: true, QuickStride: 1, ThoroughStride: 1, QuickDeadline: 420, ThoroughDeadline: 3000,
	},
	"C07": {
		LevelText: "bounded exhaustive enumeration of bundles from the C02 command grammar (names forced to collide) plus every single-rule mutation at every site (rename a reference, add an unused param/let, let named ij, undeclared call param, unknown callee, missing required param, drop a declaration, delete a command, both declaration styles); the compiler's accept/reject decision is compared with an independent reference rule checker, and every accepted program is rendered with all params supplied under an instrumented scope lookup that reports unbound names",
		LevelNote: "reference rule checker in harness/ref_cmd.go is the trusted base; programs whose status is ambiguous under the statement (a param passed on only by data=\"all\" while a same-named let exists) are not generated; the unbound-lookup probe exists only in the instrumented build",
		Technique: "bounded exhaustive exploration of programs and single-site mutations against a reference rule checker, with an instrumented probe on the runtime name lookup",
		Level:     "model_checking",
		Rule:      "a state is a distinct bundle (body x declarations x mutation); a transition is one compilation (plus one probed render when accepted); every case is non-trivial (a verdict accept/reject is compared)",
		Bounds: map[string]string{
			"quick":    "all C02 bodies unmutated; mutations (9 site kinds at every site, declaration drops, unused param, three forms of mixed soydoc/header declarations, stricter second definitions of the library before and after it) on every seventh body",
			"thorough": "mutations on every body; nested blocks over inner lists of <=2 leaves",
		},
		Assumptions: commonAssumptions, Plain: true, QuickStride: 1, ThoroughStride: 2, QuickDeadline: 420, ThoroughDeadline: 3000,
	},
	"C03": {
		LevelText: "bounded exhaustive enumeration of (namespace mode x template mode x directive chain x value) for direct prints - every one-byte string, every string of <=3 over the five specials and a letter, multi-byte, long and non-string values - with the statement checked clause by clause by an independent HTML decoder; and of eight block/call routes x caller modes x callee modes compared with the reference interpreter",
		LevelNote: "the decoder and the effective-mode rule in harness/c03.go and ref_cmd.go are the trusted base; chains containing noAutoescape/id/escapeUri/escapeJsString/json and autoescape=false are exempt as the statement says; truncating already-escaped text is treated as unspecified",
		Technique: "bounded exhaustive exploration of configurations x inputs with a decoding oracle and a reference interpreter",
		Level:     "model_checking",
		Rule:      "a state is a (modes, route, directive chain) configuration; transitions = renders (counter renders), one per value; non-trivial = the configuration compiled and was rendered for all values",
		Bounds: map[string]string{
			"quick":    "5 namespace modes x 4 template modes x all directive chains of length <=2 over 11 directive forms x 530 values; 8 routes x 20 caller modes x 9 callee modes x 8 values; 2 modes x 12x12 directive pairs on one value printed twice in a message, source vs identity bundle, x 7 values",
			"thorough": "adds all chains of length 3 over the 11 directive forms",
		},
		Assumptions: commonAssumptions, Plain: true, QuickStride: 1, ThoroughStride: 1, QuickDeadline: 420, ThoroughDeadline: 3000,
	},
	"C12": {
		LevelText: "exhaustive fault enumeration: for every template of the set (hand-picked ones covering every write site plus bodies of the C02 grammar) the fault-free render is recorded (k write calls, B bytes); then a failure is injected at every call index (once, and persistently) and at every byte capacity 0..B-1 (short write plus error); every faulty render must return an error and the accepted bytes must be a prefix of the fault-free output",
		LevelNote: "exhaustive over fault points of the recorded run for each template and data set; templates and data are a fixed finite set; renders that fail without faults are out of scope (C06)",
		Technique: "exhaustive fault-point enumeration on the real renderer through a fault-injecting io.Writer (call index x {once, forever}, byte capacity)",
		Level:     "fault_enumeration",
		Rule:      "a case is a (template, data, message bundle or not) triple; evaluations counts cases, counter fault_runs counts faulty renders; non-trivial = the fault-free render performs at least one write call",
		Bounds: map[string]string{
			"quick":    "23 hand-written templates x 3 data sets x {no bundle, identity bundle} x {entry template first, last in its file} + first 1500 bodies of the C02 grammar; all 2k+B fault points each",
			"thorough": "first 30000 bodies of the C02 grammar",
		},
		Assumptions: commonAssumptions, Plain: true, QuickStride: 1, ThoroughStride: 1, QuickDeadline: 420, ThoroughDeadline: 3000,
	},
	"C15": {
		LevelText: "exhaustive enumeration of every text run over {a,<,>,space,tab,CR,LF,e-acute} up to the stated lengths between every pair of neighbour kinds (template edge, print, {sp}, {nil}, block), of every comment placement over a dictionary of text pieces, of literal blocks and of all pairs of special-character commands; each template is compiled and rendered by the real implementation and compared with a declarative transcription of the rule in the statement",
		LevelNote: "trusted base: refJoinLines (20 lines, harness/c15.go); for whitespace adjacent to comments only the weaker clauses are asserted (no comment character in the output, all other non-whitespace characters in order), because trimming next to comments is pinned by the repository tests",
		Technique: "exhaustive small-scope enumeration of inputs against a declarative reference rule",
		Level:     "model_checking",
		Rule:      "a state is a distinct (neighbours, text) template; a transition is one render compared with the rule; non-trivial = non-empty template body",
		Bounds: map[string]string{
			"quick":    "all strings len<=4 between all 25 neighbour pairs, len 5 for the 5 equal-neighbour pairs, len 6 between two prints; 8^3 x 8^2 two-run texts; 12x12 pieces x 13 comment forms (incl. /***/, /** c */, runs of asterisks) x 6 predecessors; line breaks next to 7 runes whose code point ends in the byte of <, > or NUL; literals len<=4; 7x7 special commands x 6 texts",
			"thorough": "len<=5 for all neighbour pairs, len 6 for equal-neighbour pairs",
		},
		Assumptions: commonAssumptions, Plain: true, QuickStride: 1, ThoroughStride: 1, QuickDeadline: 420, ThoroughDeadline: 3000,
	},
	"C08": {
		LevelText: "explicit-state search over operation histories on the real objects: operations are renders of every template x data set (succeeding and failing), renders with a message bundle, JavaScript generation under both formatters and EvalExpr; a state is the canonical deep digest (reflect+unsafe, unexported fields included) of the compiled registry, caller data, injected data, message bundle and every package-level variable of the soy packages; every history of length <=3 is replayed on a freshly compiled instance under four registry configurations; each step must leave the digest unchanged and produce the bytes it produces from the initial state",
		LevelNote: "if no operation changes the digest the reachable state set is one state and by induction every history is covered; the digest covers everything the implementation can read, except the *log.Logger variables; trusted base: harness/digest.go",
		Technique: "explicit-state model checking over operation histories with a canonical deep state digest (replay on fresh instances)",
		Level:     "model_checking",
		Rule:      "states = distinct state digests reached + histories explored (a history is the state key because live objects cannot be cloned); transitions = operations executed (counter operations); every history is non-trivial (>=1 operation compared with its initial-state output)",
		Bounds: map[string]string{
			"quick":    "4 bundles x 4 configurations (default, custom function/directives, one and two obligatory print directives) x all histories of length <=3 over 13-23 operations",
			"thorough": "same (the search closes at one state per configuration)",
		},
		Assumptions: commonAssumptions, Plain: true, QuickStride: 1, ThoroughStride: 1, QuickDeadline: 420, ThoroughDeadline: 3000,
	},
	"C10": {
		LevelText: "bounded exhaustive enumeration of message bodies (<=3 parts over 26 text/html/print/call parts whose base names collide, plurals with every case set over {0,1,2}) x meanings x surroundings; every message is compiled under every Go map iteration order that the naming code can see (map order is an explorer choice point, deviation-bounded) and the id and placeholder names must be identical on all of them, equal to an independent port of the official algorithm (validated against ids pinned from the Java implementation), unchanged by description and surroundings, and pairwise distinct for distinct contents",
		LevelNote: "trusted base: harness/ref_msg.go (port of the official fingerprint, base-name and suffix rules; self-test against 8 Java-produced ids at start-up); map orders are explored up to 2 (thorough 3) non-canonical positions",
		Technique: "stateless model checking over map-iteration choice points (deviation-bounded DFS) plus bounded exhaustive input enumeration against a reference algorithm",
		Level:     "model_checking",
		Rule:      "a state is a (message body, meaning) pair; transitions = compilations under distinct map orders and surroundings (counter map_orders_explored); every case is non-trivial (id and names compared)",
		Bounds: map[string]string{
			"quick":    "bodies of <=3 parts over 26 parts (meanings on bodies <=2), 5 plural variables x 8 case sets x a fifth of 42 bodies; 4 surroundings each under map-order deviation bound 2, plus ten copies inside every block kind (canonical order); a third of 8^3 x 2 messages with a plural nested in a case of another plural",
			"thorough": "deviation bound 3; additionally all 4-part bodies over the 10 colliding parts; all plural bodies",
		},
		Assumptions: commonAssumptions, Plain: true, QuickStride: 1, ThoroughStride: 3, QuickDeadline: 420, ThoroughDeadline: 3000, OrderSensitive: true,
	},
	"C13": {
		LevelText: "for every generated 3-file bundle (pairs of 12 feature snippets that make the compiler iterate maps or collect sets, with 0-3 independent injected errors) the whole pipeline - compile, message ids, render with and without a reordering message bundle, JavaScript generation for every file under ES5/ES6 with and without messages - is executed under every Go map iteration order reachable within the deviation bound (map order is an explorer choice point) and under all 6 file insertion orders; all observations must agree, except which independent error is reported",
		LevelNote: "map orders are explored up to 2 non-canonical positions for the first insertion order and 1 for the others (3/2 thorough); the plain build repeats each configuration 6 times under Go's own randomisation",
		Technique: "stateless model checking over map-iteration choice points (deviation-bounded DFS) x exhaustive file-order permutations",
		Level:     "model_checking",
		Rule:      "a state is a bundle (snippet pair x injected errors); transitions = pipeline executions under distinct map orders and insertion orders (counter map_orders_explored); every case is non-trivial",
		Bounds: map[string]string{
			"quick":    "91 snippet pairs (13 snippets) without errors + adjacent pairs x 7 error sets; 11 error bundles; 6 insertion orders; map-order deviation bound 2/1; a second compilation in the canonical-order executions; package variables restored before every execution",
			"thorough": "all pairs x all error sets; deviation bound 3 (capped at 20000 orders per bundle) for the first insertion order, 1 for the others",
		},
		Assumptions: commonAssumptions, Plain: true, QuickStride: 1, ThoroughStride: 1, QuickDeadline: 420, ThoroughDeadline: 3000, OrderSensitive: true,
	},
	"C20": {
		LevelText: "exhaustive enumeration (replacing random generation) of a catalogue of Go leaf values for every reflect kind the converter accepts - boundaries of every integer kind, float32/64 incl. -0/NaN/Inf, strings, time values, nil pointer/slice/map/interface, value- and pointer-receiver marshalers, pre-converted values, structs with unexported/embedded fields - closed under two levels of slice/map/pointer/interface/struct wrapping, under both struct-option settings, compared with an independent reflective reference conversion; then all ordered pairs of the resulting distinct Soy values for symmetry and numeric equality, the truthiness table, and printing under every map iteration order",
		LevelNote: "trusted base: refConvert/refSame/refTruthy in the harness; unsigned values above MaxInt64 have no Int representation: the check only demands that no negative number appears",
		Technique: "bounded exhaustive enumeration of inputs and of all ordered pairs against a reference conversion and algebraic laws; map-order choice exploration for printing",
		Level:     "model_checking",
		Rule:      "states = distinct (Go value, options) conversions + distinct Soy values checked for the laws; transitions = conversions + per-value law rows (counter pairs counts the Equals pairs); non-trivial = conversion returned a value",
		Bounds: map[string]string{
			"quick":    "65 leaves (incl. integers beyond 2^53 next to the floats they round to) x 8 wrappers, every third level-1 value wrapped again x 5, 18 typed containers; 2 option settings; all ordered pairs of the distinct resulting values",
			"thorough": "every level-1 value wrapped again under all 8 wrappers (about 5300 values, all ordered pairs of the distinct results)",
		},
		Assumptions: commonAssumptions, Plain: true, QuickStride: 1, ThoroughStride: 1, QuickDeadline: 420, ThoroughDeadline: 3000,
	},
	"C16": {
		LevelText: "exhaustive enumeration of every string of length <=2 over all 256 byte values, length 3-4 over a 12-symbol alphabet (specials, entity letters, space, CR, LF, multi-byte, astral, quote, backslash), entity-like/tag-like/long/unusual strings, x every in-range integer argument; each pushed through the real Go directive by rendering and, for valid UTF-8, through the generated JavaScript in otto; outputs are judged by independent decoders (percent-decoding, JS evaluation of the quoted output, JSON parsing, HTML reference decoding) and by the prefix/length/UTF-8 laws of truncate; chains are checked against the composition of their members",
		LevelNote: "trusted base: the decoders in harness/c16.go and otto as JS evaluator; NUL (which Go's HTML escaper maps to U+FFFD) and invalid UTF-8 are only checked for safety, not for exact decoding; the JS side is judged in UTF-16 units",
		Technique: "exhaustive small-scope input enumeration with decoding oracles on both backends",
		Level:     "model_checking",
		Rule:      "a state is a distinct input string; transitions = directive applications (counters directive_applications_go/js); every case is non-trivial",
		Bounds: map[string]string{
			"quick":    "1 + 256 + 65536 byte strings, 12^3 + 12^4 alphabet strings, 24 special strings incl. 10 kB; insertWordBreaks limits 1..8, truncate limits 0..len+2; changeNewlineToBr and insertWordBreaks also in a template with autoescaping off",
			"thorough": "same",
		},
		Assumptions: commonAssumptions, Plain: true, QuickStride: 4, ThoroughStride: 1, QuickDeadline: 420, ThoroughDeadline: 3000,
	},
	"C19": {
		LevelText: "exhaustive enumeration of fault placements: 14 fault kinds appended to or replacing every line of 4 valid multi-line files, with LF and CRLF line endings; faults inside quoted attribute expressions on every line; and render failures (4 failing prints) on every line offset, inside 5 block kinds and 0-3 calls deep across two files; the position carried by the error (file, line) and its echo in the message text are compared with the known fault line",
		LevelNote: "for faults that can only be noticed later (unterminated string/comment/tag/literal/soydoc) any line from the fault line to the end of input is accepted; for render errors any line on the path from the enclosing command in the entry template to the failing command is accepted; placements that happen to be valid (inside a comment or literal) are skipped",
		Technique: "exhaustive enumeration of fault positions with a position oracle known by construction",
		Level:     "model_checking",
		Rule:      "a state is a (file, line ending, line, fault, placement) tuple; a transition is one parse or compile+render; non-trivial = the mutated input produced an error whose position was checked",
		Bounds: map[string]string{
			"quick":    "4 files (11-19 lines) x 2 line endings x every line x 14 faults x 2 placements; 7 lines x 5 attribute faults x 2 endings; 2 endings x depth 0-3 x 6 paddings x 7 positions (5 block kinds, calls with value params / a block param on their own lines) x 4 failing prints; 3 quoted-attribute positions; 2 endings x 2 leads x 10 marked writes (failing writer); every second file begins with blank lines; inputs under distinct names, one shared name (both orders) and the empty name",
			"thorough": "same",
		},
		Assumptions: commonAssumptions, Plain: true, QuickStride: 1, ThoroughStride: 1, QuickDeadline: 420, ThoroughDeadline: 3000,
	},
	"C09": {
		LevelText: "three complementary exhaustive explorations on one freshly compiled (cold) bundle: (1) every interleaving of two logical threads (three in the thorough tier), each running one of 12 operations (compilation of bundles with syntax errors, renders of the same and different templates over shared data and a shared message bundle, a failing render and a failure two calls deep, a template drawing randomInt, JavaScript generation under both formatters and through a shared Generator, compilation of an independent bundle whose globals come from text and from a map shared with other bundles), every execution starting from restored package-level variables, under a controlled scheduler whose yield points are every 4th (preemption bound 1) and every 32nd (bound 2) instrumented function entry / loop iteration of each thread, plus thread start, exit and channel operations, up to the preemption bound, each thread's output compared with its solo output; (2) solo runs in which a deep digest of all shared state is taken at the yield points and at every synchronisation operation - no unsynchronised step may change it (on the pinned tree the render code has no synchronisation, so a write to shared state is a data race, and steps that write nothing shared commute; sync and sync/atomic are replaced by shims whose operations are scheduling points; state changed under a lock, and the contents of pools, are left to (1) and (3)); (3) the same bodies free-running on real goroutines in a -race build, the detector's reports being violations",
		LevelNote: "the cooperative scheduler's hand-offs hide races from the detector, hence the separate free-running -race pass (a detector report is never a false positive; silence there is supporting evidence only); scheduler granularity is function entry / loop iteration; preemption bound 2 for the render/render scenarios and 1 for the others in the quick tier",
		Technique: "stateless model checking under a controlled scheduler (preemption-bounded DFS), shared-state digest invariant, plus a free-running race-detector pass",
		Level:     "model_checking",
		Rule:      "states = thread-operation scenarios (ordered pairs/triples of operations) + solo operations; transitions = complete schedules executed (counter schedules) + digested solo steps; every scenario is non-trivial (>=2 threads contend for the same compiled bundle)",
		Bounds: map[string]string{
			"quick":    "12 operations; all 144 ordered pairs on 2 threads; every schedule with <=1 preemption at every 4th yield point (every point inside a critical section) and <=2 preemptions at every 32nd (48th / 96th when one / both operations compile a bundle); a non-canonical successor at a blocking switch counts as a deviation; solo digest every third step; race pass 144 scenarios x 3 goroutines x 30 cold starts",
			"thorough": "3 threads; every schedule with <=1 preemption at every instrumented point (every 4th when an operation compiles a bundle) and <=2 preemptions at every 12th (96th / 192nd with one / more compiling operations), each capped at 2000000 schedules per worker and scenario; scenarios are started until the 20-minute soft deadline (then exhaustive:false); race pass x 200 cold starts",
		},
		Assumptions: commonAssumptions, Plain: true, QuickStride: 1, ThoroughStride: 1, QuickDeadline: 420, ThoroughDeadline: 1200, Race: true, OrderSensitive: true,
	},
	"C04": {
		LevelText: "translation validation by execution, for every program of a bounded space: the C01 expression strata, the C02 command/scoping/call grammar with every data assignment, messages and plurals without and with an identity and a reordering bundle, and autoescape modes x directive chains across two namespaces, each filtered to the subset both backends define; every program is rendered by the Go renderer, translated by the JavaScript generator, loaded with soyutils.js into the otto interpreter and called with the same JSON data and injected data; the two strings must be equal (the reference interpreter names the side that is wrong)",
		LevelNote: "otto (the ES5 interpreter the repository's own tests use) is the JS engine; data are restricted to ASCII strings, integers within 2^53 and short dyadic floats, which both engines print identically; lists/maps are not printed, and/or/not take booleans, equality is same-type, keys() only on single-key maps (documented differences of the backends); changeNewlineToBr/insertWordBreaks are excluded under autoescape=false",
		Technique: "differential execution of every generated program on both backends (bounded exhaustive program enumeration)",
		Level:     "translation_validation",
		Rule:      "a program is one template (or bundle) x data set in the common subset; programs counts dual renders; disagreements_checked counts disagreements examined against the reference model",
		Bounds: map[string]string{
			"quick":    "C01 strata S1,S2,S4,S5,S3 in the common subset (minimal and full parentheses); every fourth body of the C02 grammar x up to 18 data sets; 7 hand-written bodies (component nesting, variables named like generator-derived loop names); 7 message bodies x 3 bundles x 2 modes; 4x3 autoescape modes x 12 directive chains x 8 values through print, call and let",
			"thorough": "every body of the C02 grammar, three-operator nestings",
		},
		Assumptions: commonAssumptions, Plain: true, QuickStride: 8, ThoroughStride: 8, QuickDeadline: 500, ThoroughDeadline: 3000,
	},
	"C14": {
		LevelText: "exhaustive enumeration of literal carriers - one literal L in each of 11 positions a template string can originate from (literal block, string literal, string in an expression, map key, map lookup, css name, message text, raw text, global value, switch case label, param value), L over every ASCII byte, every pair of {quote, double quote, backslash, LF, CR, U+2028, U+2029, <, /} alone and embedded, and special strings up to 10 kB - plus qualified names with 1-4 segments and every bundle of the C02 grammar without the common-subset filter; the JavaScript generated under the ES5 and ES6 formatters is parsed by otto's parser (ES6 after removing its import/export keywords), evaluated, probed for one function per template, and the carrier is called: it must return exactly L, which the generator knows (the Go renderer is not consulted)",
		LevelNote: "otto parser/interpreter as the JS engine; non-ASCII literals are parsed and evaluated but their value is not compared (otto indexes non-ASCII strings bytewise); ES6 module syntax itself is not checked by an ES6 parser",
		Technique: "bounded exhaustive enumeration of literal carriers and bundles with parse/evaluate/return-value oracles",
		Level:     "model_checking",
		Rule:      "a state is a distinct (origin, literal) carrier, name or bundle; a transition is one generate+parse(+evaluate+call); non-trivial = the compiler accepted the bundle so JavaScript was generated and judged",
		Bounds: map[string]string{
			"quick":    "12 origins x (127 ASCII bytes + 162 special pairs + 49 special strings incl. 6-9 kB non-ASCII runs at 4 byte offsets and non-printable code points outside the basic plane); 5 namespaces x 4 names; 66 reserved / generator / global identifiers x 6 uses; 5 bodies whose variables are named like the names derived for loops and param blocks; every third body of the C02 grammar (syntax under both formatters; every fifth of those evaluated)",
			"thorough": "every body of the C02 grammar",
		},
		Assumptions: commonAssumptions, Plain: true, QuickStride: 6, ThoroughStride: 6, QuickDeadline: 500, ThoroughDeadline: 3000,
	},
	"C11": {
		LevelText: "bounded exhaustive enumeration of messages (bodies of <=3 parts over 14 text/html/print/call parts with colliding placeholder names, in a plain template, in a loop and in a called template; 26 plurals with {case 1}/{default}) pushed through the real pipeline: the xgettext-soy binary built from the current tree extracts them, its output is parsed as PO, catalogues are filled (identity, placeholders reversed, text segments marked, every proper subset of a 3-message bundle) for locales with 1, 2 and 3 plural forms, loaded through pomsg.Load, and rendered by the Go renderer and by the generated JavaScript in otto; the output is compared with the translation's parts substituted by each placeholder's own rendering",
		LevelNote: "each placeholder's live value is obtained by rendering the placeholder's source alone (those renders are the subject of C01/C02); PO restricts plurals to {case 1}+{default}; JS comparison on ASCII data",
		Technique: "bounded exhaustive enumeration of messages x catalogues x locales x data through the real extractor, loader and both renderers",
		Level:     "model_checking",
		Rule:      "a state is a group of three generated messages (one bundle, one extractor run); transitions = renders with a catalogue (counter renders); every group is non-trivial",
		Bounds: map[string]string{
			"quick":    "message bodies of <=3 parts over 14 parts (+ call and meaning variants for 2-part bodies), 26 plurals; 3+7 catalogues x 3 locales x 4 data sets each (plural counts 1, 3, -1, 0); every plain message also before and after a neighbour message with like-named placeholders",
			"thorough": "same",
		},
		Assumptions: commonAssumptions, Plain: true, QuickStride: 8, ThoroughStride: 8, QuickDeadline: 500, ThoroughDeadline: 3000,
	},
	"C05": {
		LevelText: "bounded exhaustive exploration of the real parser: every input of the stated small scopes is parsed under a controlled scheduler with a deterministic linear fuel bound (no wall clock), and small inputs under every parser/scanner interleaving up to 2 preemptions; termination, no panic, no deadlock and tree-xor-error are checked on every execution and every case is replayed on the uninstrumented build",
		LevelNote: "assumes the bounded scopes are representative (small-scope hypothesis) and that the overlay instrumentation preserves behaviour (cross-checked case by case against the plain build)",
		Technique: "stateless model checking: exhaustive input enumeration + controlled scheduler with fuel bound",
		Level:     "model_checking",
		Rule:      "cases = byte prefixes of corpus files + fragment sequences from the tag dictionary in every block context + token deletions/duplications/swaps + all byte strings len<=2 (all 256 bytes) and len 3 over lexer class representatives in 8 contexts + expression token sequences, each parsed by the real parser under the controlled scheduler with a linear fuel bound; a state is a distinct input; non-trivial = non-empty input or an error result",
		Bounds: map[string]string{
			"quick":    "fragment sequences <=2 (all contexts) and 3 (core fragments, file+template level); byte strings <=2 exhaustive, 3 over 43 class representatives; expression token sequences <=3; fuel 400*(len+16)+20000 ticks",
			"thorough": "fragment sequences <=3 in all contexts; double token mutations on all small files; expression token sequences <=4",
		},
		Assumptions: commonAssumptions, Plain: true, QuickStride: 1, ThoroughStride: 4, QuickDeadline: 420, ThoroughDeadline: 3000,
	},
	"C18": {
		LevelText: "every parse of the C05 input space (files and expressions, and globals files through ParseGlobals) runs under the controlled scheduler, which sees all logical threads: after the call returns the remaining threads are run to quiescence and any survivor is a leak; small inputs are explored under all schedules up to 2 preemptions; the plain build confirms with goroutine counts",
		LevelNote: "assumes every goroutine/channel operation in the parser is owned by the instrumenter (the instrumenter lists unowned sites in the evidence; today only the fsnotify select in bundle.go)",
		Technique: "stateless model checking under a controlled scheduler (thread census at quiescence), preemption bound 2",
		Level:     "model_checking",
		Rule:      "same input space as C05; each parse runs under the controlled scheduler; after the call returns all other logical threads are driven to quiescence and survivors are counted; on the plain build the goroutine count is compared with its value before the call; non-trivial = non-empty input or an error result",
		Bounds: map[string]string{
			"quick":    "as C05 quick, plus ParseGlobals on every sequence of <=3 lines over 10 line forms and on one failing line at every position of files of <=12 lines (LF and CRLF); canonical schedule for all inputs (schedule exploration: see C18 schedules counter)",
			"thorough": "as C05 thorough",
		},
		Assumptions: commonAssumptions, Plain: true, QuickStride: 1, ThoroughStride: 4, QuickDeadline: 420, ThoroughDeadline: 3000,
	},
}
