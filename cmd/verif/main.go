// verif is the driver: it instruments /repo's current working tree, builds the
// harness (instrumented and plain), runs property checks in worker processes,
// validates the explored cases against the plain build, applies the
// known-findings list and writes evidence.
package main

import (
	"bufio"
	"bytes"
	"context"
	"crypto/sha256"
	"encoding/hex"
	"encoding/json"
	"fmt"
	"os"
	"os/exec"
	"path/filepath"
	"sort"
	"strconv"
	"strings"
	"sync"
	"syscall"
	"time"

	"verif/internal/instr"
	"verif/internal/proto"
)

const (
	repo     = "/repo"
	verifDir = "/verif"
)

func goEnv() []string {
	env := os.Environ()
	env = append(env, "GOFLAGS=-mod=mod", "GOPROXY=off", "GOSUMDB=off", "GOTOOLCHAIN=local", "CGO_ENABLED=0")
	return env
}

func fatal(code int, format string, a ...any) {
	fmt.Fprintf(os.Stderr, "verif: "+format+"\n", a...)
	os.Exit(code)
}

// harnessKey hashes the harness-side sources so that the build cache is
// invalidated when the machinery itself changes.
func harnessKey() string {
	h := sha256.New()
	for _, dir := range []string{"harness", "vrt", "internal"} {
		filepath.Walk(filepath.Join(verifDir, dir), func(p string, info os.FileInfo, err error) error {
			if err == nil && !info.IsDir() && (strings.HasSuffix(p, ".go") || strings.HasSuffix(p, ".js")) {
				b, _ := os.ReadFile(p)
				fmt.Fprintf(h, "%s %d\n", p, len(b))
				h.Write(b)
			}
			return nil
		})
	}
	b, _ := os.ReadFile(filepath.Join(verifDir, "go.mod"))
	h.Write(b)
	return hex.EncodeToString(h.Sum(nil))[:12]
}

type buildInfo struct {
	Dir    string
	Instr  string
	Plain  string
	Report *instr.Report
}

// ensureBuild instruments and builds (or reuses a cached build of) the harness.
func ensureBuild(race bool) (*buildInfo, error) {
	key, err := instr.TreeKey(repo, harnessKey())
	if err != nil {
		return nil, err
	}
	root := filepath.Join(verifDir, ".build")
	os.MkdirAll(root, 0o755)
	lock, err := os.OpenFile(filepath.Join(root, "lock"), os.O_CREATE|os.O_RDWR, 0o644)
	if err != nil {
		return nil, err
	}
	defer lock.Close()
	if err := syscall.Flock(int(lock.Fd()), syscall.LOCK_EX); err != nil {
		return nil, err
	}
	defer syscall.Flock(int(lock.Fd()), syscall.LOCK_UN)

	dir := filepath.Join(root, key)
	bi := &buildInfo{Dir: dir, Instr: filepath.Join(dir, "harness.instr"), Plain: filepath.Join(dir, "harness.plain")}
	marker := filepath.Join(dir, "done")
	if _, err := os.Stat(marker); err != nil {
		os.RemoveAll(dir)
		if err := os.MkdirAll(dir, 0o755); err != nil {
			return nil, err
		}
		_, rep, err := instr.Instrument(repo, dir)
		if err != nil {
			return nil, fmt.Errorf("instrument: %w", err)
		}
		bi.Report = rep
		// go.sum must cover soy's dependencies.
		if b, err := os.ReadFile(filepath.Join(repo, "go.sum")); err == nil {
			mine, _ := os.ReadFile(filepath.Join(verifDir, "go.sum"))
			if !bytes.Contains(mine, b) {
				merged := mergeSums(mine, b)
				os.WriteFile(filepath.Join(verifDir, "go.sum"), merged, 0o644)
			}
		}
		// the real message extractor, built from the current tree (C11 runs it as a subprocess)
		{
			cmd := exec.Command("go", "build", "-o", filepath.Join(dir, "xgettext-soy"), "github.com/robfig/soy/soymsg/pomsg/xgettext-soy")
			cmd.Dir = verifDir
			cmd.Env = goEnv()
			if o, err := cmd.CombinedOutput(); err != nil {
				return nil, fmt.Errorf("go build xgettext-soy: %v\n%s", err, o)
			}
		}
		var wg sync.WaitGroup
		errs := make([]error, 2)
		wg.Add(2)
		go func() {
			defer wg.Done()
			errs[0] = goBuild(bi.Instr, "-tags", "verif", "-overlay", filepath.Join(dir, "overlay.json"))
		}()
		go func() {
			defer wg.Done()
			errs[1] = goBuild(bi.Plain)
		}()
		wg.Wait()
		for _, e := range errs {
			if e != nil {
				return nil, e
			}
		}
		os.WriteFile(marker, []byte(time.Now().Format(time.RFC3339)), 0o644)
		pruneBuilds(root, key)
	}
	if bi.Report == nil {
		var rep instr.Report
		if b, err := os.ReadFile(filepath.Join(dir, "instr_report.json")); err == nil {
			json.Unmarshal(b, &rep)
		}
		bi.Report = &rep
	}
	if race {
		rb := filepath.Join(dir, "harness.race")
		if _, err := os.Stat(rb); err != nil {
			cmd := exec.Command("go", "build", "-race", "-o", rb, "./harness")
			cmd.Dir = verifDir
			env := goEnv()
			for i, e := range env {
				if e == "CGO_ENABLED=0" {
					env[i] = "CGO_ENABLED=1"
				}
			}
			cmd.Env = env
			if out, err := cmd.CombinedOutput(); err != nil {
				return nil, fmt.Errorf("race build: %v\n%s", err, out)
			}
		}
	}
	return bi, nil
}

func mergeSums(a, b []byte) []byte {
	set := map[string]bool{}
	var lines []string
	for _, src := range [][]byte{a, b} {
		sc := bufio.NewScanner(bytes.NewReader(src))
		for sc.Scan() {
			l := strings.TrimSpace(sc.Text())
			if l != "" && !set[l] {
				set[l] = true
				lines = append(lines, l)
			}
		}
	}
	sort.Strings(lines)
	return []byte(strings.Join(lines, "\n") + "\n")
}

func goBuild(out string, extra ...string) error {
	args := append([]string{"build"}, extra...)
	args = append(args, "-o", out, "./harness")
	cmd := exec.Command("go", args...)
	cmd.Dir = verifDir
	cmd.Env = goEnv()
	if o, err := cmd.CombinedOutput(); err != nil {
		return fmt.Errorf("go %s: %v\n%s", strings.Join(args, " "), err, o)
	}
	return nil
}

func pruneBuilds(root, keep string) {
	ents, _ := os.ReadDir(root)
	type e struct {
		name string
		t    time.Time
	}
	var ds []e
	for _, en := range ents {
		if en.IsDir() && en.Name() != keep {
			info, _ := en.Info()
			ds = append(ds, e{en.Name(), info.ModTime()})
		}
	}
	// keep the five newest other builds, and never remove one used in the last hour (a check
	// running concurrently on another tree state may still be executing its binaries).
	sort.Slice(ds, func(i, j int) bool { return ds[i].t.After(ds[j].t) })
	for i, d := range ds {
		if i >= 5 && time.Since(d.t) > time.Hour {
			os.RemoveAll(filepath.Join(root, d.name))
		}
	}
}

// runWorkers runs n shards of one binary and returns the per-shard results.
func runWorkers(bin string, prop, tier string, seed int64, n int, deadline int, stride int64, hard time.Duration, extraEnv []string) ([]*proto.Result, []string) {
	results := make([]*proto.Result, n)
	problems := make([]string, n)
	var wg sync.WaitGroup
	for i := 0; i < n; i++ {
		wg.Add(1)
		go func(i int) {
			defer wg.Done()
			ctx, cancel := context.WithTimeout(context.Background(), hard)
			defer cancel()
			args := []string{"-prop", prop, "-tier", tier, "-seed", strconv.FormatInt(seed, 10),
				"-shard", strconv.Itoa(i), "-nshards", strconv.Itoa(n), "-deadline", strconv.Itoa(deadline),
				"-stride", strconv.FormatInt(stride, 10)}
			cmd := exec.CommandContext(ctx, bin, args...)
			cmd.Env = append(os.Environ(), "GOMAXPROCS=2")
			cmd.Env = append(cmd.Env, extraEnv...)
			var stdout, stderr bytes.Buffer
			cmd.Stdout, cmd.Stderr = &stdout, &stderr
			err := cmd.Run()
			if ctx.Err() != nil {
				problems[i] = "watchdog"
				return
			}
			if _, notStarted := err.(*exec.Error); notStarted || (err != nil && cmd.ProcessState == nil) {
				problems[i] = "infra: cannot start worker: " + err.Error()
				return
			}
			if err != nil {
				tail := stderr.String()
				if len(tail) > 3000 {
					tail = tail[:1500] + "\n...\n" + tail[len(tail)-1500:]
				}
				problems[i] = fmt.Sprintf("worker died: %v\n%s", err, tail)
				return
			}
			var r proto.Result
			lines := bytes.Split(bytes.TrimSpace(stdout.Bytes()), []byte("\n"))
			if err := json.Unmarshal(lines[len(lines)-1], &r); err != nil {
				problems[i] = fmt.Sprintf("bad worker output: %v: %.300s", err, stdout.String())
				return
			}
			results[i] = &r
		}(i)
	}
	wg.Wait()
	return results, problems
}

// findInFlight re-runs a dead shard with a journal to identify the in-flight case.
func findInFlight(bin, prop, tier string, seed int64, shard, n int) (int64, string) {
	j := filepath.Join(os.TempDir(), fmt.Sprintf("verif-journal-%s-%d-%d", prop, shard, os.Getpid()))
	defer os.Remove(j)
	ctx, cancel := context.WithTimeout(context.Background(), 20*time.Minute)
	defer cancel()
	cmd := exec.CommandContext(ctx, bin, "-prop", prop, "-tier", tier, "-seed", strconv.FormatInt(seed, 10),
		"-shard", strconv.Itoa(shard), "-nshards", strconv.Itoa(n), "-journal", j)
	var stderr bytes.Buffer
	cmd.Stderr = &stderr
	cmd.Run()
	b, _ := os.ReadFile(j)
	lines := strings.Split(strings.TrimSpace(string(b)), "\n")
	if len(lines) == 0 || lines[len(lines)-1] == "" {
		return -1, stderr.String()
	}
	idx, _ := strconv.ParseInt(lines[len(lines)-1], 10, 64)
	tail := stderr.String()
	if len(tail) > 1500 {
		tail = tail[:1500]
	}
	return idx, tail
}

type knownFinding struct {
	Property string
	Sig      string
	Desc     string
}

func loadKnown() (known []knownFinding, fixed []string) {
	f, err := os.Open(filepath.Join(verifDir, "known_findings.txt"))
	if err != nil {
		return nil, nil
	}
	defer f.Close()
	sc := bufio.NewScanner(f)
	sc.Buffer(make([]byte, 1<<20), 1<<20)
	for sc.Scan() {
		l := strings.TrimSpace(sc.Text())
		if l == "" || strings.HasPrefix(l, "#") {
			continue
		}
		if strings.HasPrefix(l, "fixed:") {
			fixed = append(fixed, l)
			continue
		}
		if strings.HasPrefix(l, "known:") {
			// known: property=C04 sig=<quoted go string> <description>
			rest := strings.TrimSpace(strings.TrimPrefix(l, "known:"))
			var kf knownFinding
			if strings.HasPrefix(rest, "property=") {
				sp := strings.IndexByte(rest, ' ')
				kf.Property = rest[len("property="):sp]
				rest = strings.TrimSpace(rest[sp:])
			}
			if strings.HasPrefix(rest, "sig=") {
				q := rest[len("sig="):]
				s, err := strconv.QuotedPrefix(q)
				if err == nil {
					kf.Sig, _ = strconv.Unquote(s)
					kf.Desc = strings.TrimSpace(q[len(s):])
				}
			}
			if kf.Sig != "" {
				known = append(known, kf)
			}
		}
	}
	return
}

type evidence struct {
	PropertyID  string         `json:"property_id"`
	Tier        string         `json:"tier"`
	Seed        int64          `json:"seed"`
	Level       string         `json:"level"`
	Coverage    map[string]any `json:"coverage"`
	Assumptions []string       `json:"assumptions"`
	WallS       float64        `json:"wall_s"`
	Violations  int            `json:"violations"`
}

func main() {
	if len(os.Args) < 2 {
		fatal(2, "usage: verif setup | check <ID> [--tier quick|thorough] | replay <file>")
	}
	switch os.Args[1] {
	case "setup":
		bi, err := ensureBuild(true)
		if err != nil {
			fatal(2, "setup: %v", err)
		}
		fmt.Printf("build ready: %s (%d files instrumented, %d tick sites, %d map-range sites)\n", bi.Dir, bi.Report.Files, bi.Report.Ticks, len(bi.Report.MapRanges))
	case "manifest":
		writeManifest()
	case "check":
		os.Exit(check(os.Args[2:]))
	case "replay":
		os.Exit(replay(os.Args[2:]))
	default:
		fatal(2, "unknown command %q", os.Args[1])
	}
}

func replay(args []string) int {
	if len(args) < 1 {
		fatal(2, "usage: verif replay <file>")
	}
	b, err := os.ReadFile(args[0])
	if err != nil {
		fatal(2, "%v", err)
	}
	var v proto.Violation
	if err := json.Unmarshal(b, &v); err != nil {
		fatal(2, "%v", err)
	}
	spec, ok := specs[v.Property]
	if !ok {
		fatal(2, "unknown property %q in replay file", v.Property)
	}
	bi, err := ensureBuild(spec.Race)
	if err != nil {
		fatal(2, "build: %v", err)
	}
	fmt.Printf("replaying %s case #%d (tier %s) of property %s\nrecorded: clause=%q sig=%q\n  input=%s\n  expected=%.300s\n  observed=%.300s\n",
		args[0], v.CaseIndex, v.Tier, v.Property, v.Clause, v.Sig, compact(v.Input), v.Expected, v.Observed)
	if v.Kind == "race" || v.Kind == "process-death" {
		fmt.Println("this record has no case index (race-detector report / process death): re-run the check to reproduce")
		return 0
	}
	// the enumeration of every check is deterministic: case #n is re-executed alone, on the
	// uninstrumented build first (the real code), then on the instrumented one.
	exit := 0
	for _, bin := range []string{bi.Plain, bi.Instr} {
		ctx, cancel := context.WithTimeout(context.Background(), 120*time.Second)
		cmd := exec.CommandContext(ctx, bin, "-prop", v.Property, "-tier", v.Tier, "-seed", strconv.FormatInt(v.Seed, 10), "-only", strconv.FormatInt(v.CaseIndex, 10))
		var stdout, stderr bytes.Buffer
		cmd.Stdout, cmd.Stderr = &stdout, &stderr
		err := cmd.Run()
		cancel()
		fmt.Printf("== %s ==\n", filepath.Base(bin))
		if ctx.Err() != nil {
			fmt.Println("did not return within 120 s (hang confirmed)")
			exit = 1
			continue
		}
		if err != nil {
			fmt.Printf("process died: %v\n%.2000s\n", err, stderr.String())
			exit = 1
			continue
		}
		var r proto.Result
		lines := bytes.Split(bytes.TrimSpace(stdout.Bytes()), []byte("\n"))
		if err := json.Unmarshal(lines[len(lines)-1], &r); err != nil {
			fmt.Printf("bad output: %v\n", err)
			continue
		}
		if len(r.Violations) == 0 {
			fmt.Printf("case executed (%d oracle comparisons): no violation\n", r.Cases)
		}
		for _, rv := range r.Violations {
			exit = 1
			fmt.Printf("VIOLATION reproduced: clause=%q sig=%q\n  expected=%.400s\n  observed=%.400s\n", rv.Clause, rv.Sig, rv.Expected, rv.Observed)
		}
	}
	return exit
}

func check(args []string) int {
	if len(args) < 1 {
		fatal(2, "usage: verif check <ID> [--tier quick|thorough]")
	}
	prop := args[0]
	tier := os.Getenv("VERIF_TIER")
	for i := 1; i < len(args); i++ {
		if args[i] == "--tier" && i+1 < len(args) {
			tier = args[i+1]
			i++
		}
	}
	if tier == "" {
		tier = "quick"
	}
	var seed int64
	if s := os.Getenv("VERIF_SEED"); s != "" {
		seed, _ = strconv.ParseInt(s, 10, 64)
	}
	spec, ok := specs[prop]
	if !ok {
		fatal(2, "unknown property %s", prop)
	}
	start := time.Now()
	bi, err := ensureBuild(spec.Race)
	if err != nil {
		fatal(2, "build failed (not a verdict): %v", err)
	}
	nw := 16
	if v := os.Getenv("VERIF_WORKERS"); v != "" {
		nw, _ = strconv.Atoi(v)
	}
	deadline := spec.QuickDeadline
	hard := 15 * time.Minute
	if tier == "thorough" {
		deadline = spec.ThoroughDeadline
		hard = time.Duration(deadline+600) * time.Second
	}

	// 1. instrumented exploration.
	res, probs := runWorkers(bi.Instr, prop, tier, seed, nw, deadline, 1, hard, nil)
	agg := newAgg(prop)
	for i, r := range res {
		if r == nil {
			if strings.HasPrefix(probs[i], "infra:") {
				fmt.Fprintf(os.Stderr, "infrastructure error (not a verdict): %s\n", probs[i])
				return 2
			}
			if probs[i] == "watchdog" {
				agg.caps = append(agg.caps, fmt.Sprintf("shard %d stopped by the watchdog", i))
				agg.exhaustive = false
				continue
			}
			// process death: identify the in-flight case.
			idx, tail := findInFlight(bi.Instr, prop, tier, seed, i, nw)
			agg.viol = append(agg.viol, proto.Violation{Property: prop, Clause: "process-death", Kind: "process-death",
				Sig:      fmt.Sprintf("process-death:case=%d", idx),
				Input:    map[string]any{"case_index": idx, "shard": i, "nshards": nw, "tier": tier, "seed": seed},
				Observed: probs[i] + "\n" + tail, Build: "instr"})
			agg.violCount++
			continue
		}
		agg.add(r)
	}
	if agg.infra != "" {
		fmt.Fprintf(os.Stderr, "infrastructure error (not a verdict): %s\n", agg.infra)
		return 2
	}

	// 2. validation against the plain build (skipped when hang-type violations
	//    exist: the plain build would really hang; those are confirmed one by one).
	validated := int64(0)
	hangs := false
	for _, v := range agg.viol {
		if v.Kind == "hang" || v.Kind == "deadlock" || v.Kind == "process-death" {
			hangs = true
		}
	}
	plainNote := ""
	if spec.Plain && !hangs {
		stride := spec.QuickStride
		if tier == "thorough" {
			stride = spec.ThoroughStride
		}
		if stride < 1 {
			stride = 1
		}
		pres, pprobs := runWorkers(bi.Plain, prop, tier, seed, nw, deadline, stride, hard, nil)
		pagg := newAgg(prop)
		for i, r := range pres {
			if r == nil {
				if strings.HasPrefix(pprobs[i], "infra:") {
					fmt.Fprintf(os.Stderr, "infrastructure error (not a verdict): %s\n", pprobs[i])
					return 2
				}
				plainNote += fmt.Sprintf("plain shard %d: %s; ", i, firstLine(pprobs[i]))
				if pprobs[i] != "watchdog" {
					agg.viol = append(agg.viol, proto.Violation{Property: prop, Clause: "process-death", Kind: "process-death",
						Sig: "process-death:plain", Input: map[string]any{"shard": i, "nshards": nw, "tier": tier, "seed": seed, "build": "plain"},
						Observed: pprobs[i], Build: "plain"})
					agg.violCount++
				}
				continue
			}
			pagg.add(r)
		}
		if pagg.infra != "" {
			fmt.Fprintf(os.Stderr, "infrastructure error in plain build (not a verdict): %s\n", pagg.infra)
			return 2
		}
		// violations seen only on the plain build are real behaviours of the real code.
		seen := map[string]bool{}
		for _, v := range agg.viol {
			seen[v.Sig] = true
		}
		for _, v := range pagg.viol {
			if !seen[v.Sig] {
				agg.viol = append(agg.viol, v)
				agg.violCount++
				seen[v.Sig] = true
			}
		}
		if stride == 1 && agg.exhaustive && pagg.exhaustive {
			if pagg.obsHash == agg.obsHash && pagg.obsCount == agg.obsCount {
				validated = pagg.obsCount
			} else {
				plainNote += fmt.Sprintf("observation digests differ between instrumented (%d obs) and plain (%d obs) builds; ", agg.obsCount, pagg.obsCount)
				if !spec.OrderSensitive && len(agg.viol) == 0 {
					fmt.Fprintf(os.Stderr, "infrastructure error (not a verdict): %s\n", plainNote)
					return 2
				}
			}
		} else {
			validated = pagg.obsCount // every plain case ran the same oracle on the real code
		}
	}

	// 2b. free-running race-detector pass (C09): the same operation bodies on real goroutines in a -race build.
	if spec.Race {
		rb := filepath.Join(bi.Dir, "harness.race")
		logBase := filepath.Join(bi.Dir, fmt.Sprintf("race-%d", os.Getpid()))
		// the free-running pass has no scheduler that could see a deadlock between real goroutines
		// (the controlled exploration reports those): a pass that does not finish is stopped by the
		// watchdog and recorded as not exhaustive, never as a verdict.
		raceHard := 5 * time.Minute
		if tier == "thorough" {
			raceHard = 20 * time.Minute
		}
		rres, rprobs := runWorkers(rb, prop+"race", tier, seed, 4, deadline, 1, raceHard, []string{"GORACE=halt_on_error=0 exitcode=0 log_path=" + logBase, "GOMAXPROCS=8"})
		races := 0
		var firstReport string
		logs, _ := filepath.Glob(logBase + ".*")
		for _, lf := range logs {
			b, _ := os.ReadFile(lf)
			n := strings.Count(string(b), "WARNING: DATA RACE")
			if n > 0 && firstReport == "" {
				firstReport = string(b)
				if len(firstReport) > 3000 {
					firstReport = firstReport[:3000]
				}
			}
			races += n
			os.Remove(lf)
		}
		ran := int64(0)
		for i, r := range rres {
			if r == nil {
				plainNote += fmt.Sprintf("race shard %d: %s; ", i, firstLine(rprobs[i]))
				if rprobs[i] == "watchdog" {
					agg.exhaustive = false
					agg.caps = append(agg.caps, fmt.Sprintf("race pass shard %d did not finish and was stopped by the watchdog", i))
				}
				if rprobs[i] != "watchdog" {
					agg.viol = append(agg.viol, proto.Violation{Property: prop, Clause: "concurrent operations do not crash", Kind: "process-death",
						Sig: "race-pass-crash", Input: map[string]any{"shard": i, "build": "race"}, Observed: rprobs[i], Build: "race"})
					agg.violCount++
				}
				continue
			}
			ran += r.Cases
		}
		agg.counters["race_pass_scenarios"] = ran
		agg.counters["race_reports"] = int64(races)
		if races > 0 {
			agg.viol = append(agg.viol, proto.Violation{Property: prop, Clause: "concurrent use of one compiled bundle is free of data races", Kind: "race",
				Sig: "data-race:" + raceSite(firstReport), Input: map[string]any{"build": "race", "scenarios": "all ordered pairs of operations, 3 goroutines, cold start"},
				Expected: "no report from the race detector", Observed: firstReport, Build: "race"})
			agg.violCount++
		}
	}

	// 3. known findings.
	known, _ := loadKnown()
	knownBySig := map[string]knownFinding{}
	for _, k := range known {
		if k.Property == prop {
			knownBySig[k.Sig] = k
		}
	}
	var fresh []proto.Violation
	printedKnown := map[string]bool{}
	for _, v := range agg.viol {
		if k, ok := knownBySig[v.Sig]; ok {
			if !printedKnown[v.Sig] {
				printedKnown[v.Sig] = true
				fmt.Printf("KNOWN-FINDING: property=%s %s\n", prop, k.Desc)
			}
			continue
		}
		fresh = append(fresh, v)
	}
	// signatures that had more failing cases than stored records: all counted by sig.
	for sig := range agg.sigCounts {
		if _, ok := knownBySig[sig]; ok && !printedKnown[sig] {
			printedKnown[sig] = true
			fmt.Printf("KNOWN-FINDING: property=%s %s\n", prop, knownBySig[sig].Desc)
		}
	}

	// 4. replay files for fresh violations.
	exit := 0
	replayDir := filepath.Join(verifDir, "evidence", "replay")
	os.MkdirAll(replayDir, 0o755)
	old, _ := filepath.Glob(filepath.Join(replayDir, prop+"-*.json"))
	for _, o := range old {
		os.Remove(o)
	}
	sigSeen := map[string]bool{}
	n := 0
	sort.SliceStable(fresh, func(i, j int) bool { return len(compactFull(fresh[i].Input)) < len(compactFull(fresh[j].Input)) })
	for _, v := range fresh {
		if sigSeen[v.Sig] {
			continue
		}
		sigSeen[v.Sig] = true
		n++
		if n > 20 {
			break
		}
		p := filepath.Join(replayDir, fmt.Sprintf("%s-%d.json", prop, n))
		b, _ := json.MarshalIndent(v, "", " ")
		os.WriteFile(p, b, 0o644)
		fmt.Printf("VIOLATION property=%s replay=%s\n", prop, p)
		fmt.Printf("  clause=%s kind=%s sig=%q\n  input=%s\n  expected=%.400s\n  observed=%.400s\n", v.Clause, v.Kind, v.Sig, compact(v.Input), v.Expected, v.Observed)
		exit = 1
	}

	// 5. evidence.
	cov := map[string]any{
		"states":                        agg.states,
		"transitions":                   agg.cases,
		"traces_validated_against_impl": validated,
		"evaluations":                   agg.cases,
		"distinct_nontrivial":           agg.nontrivial,
		"distinct_outcomes":             agg.outcomes,
		"rule":                          spec.Rule,
		"samples":                       agg.samples,
		"exhaustive":                    agg.exhaustive,
		"caps_hit":                      agg.caps,
		"counters":                      agg.counters,
		"maxima":                        agg.maxima,
		"notes":                         agg.notes,
		"bounds":                        spec.Bounds[tier],
		"failing_cases":                 agg.violCount,
		"programs":                      agg.cases,
		"disagreements_checked":         agg.violCount,
		"known_findings_observed":       len(printedKnown),
		"workers":                       nw,
		"instrumentation": map[string]any{
			"key": filepath.Base(bi.Dir), "files": bi.Report.Files, "tick_sites": bi.Report.Ticks,
			"map_range_sites": len(bi.Report.MapRanges), "chan_op_sites": len(bi.Report.ChanOps),
			"go_sites": bi.Report.GoStmts, "sync_imports_shimmed": bi.Report.SyncImports, "unowned_sites": bi.Report.Unowned, "unbound_probe": bi.Report.UnboundProbe,
			"package_vars": bi.Report.PackageVars,
		},
		"plain_validation": plainNote,
	}
	if len(agg.samples) == 0 {
		cov["samples"] = []any{"(no sample recorded)"}
	}
	ev := evidence{PropertyID: prop, Tier: tier, Seed: seed, Level: spec.Level, Coverage: cov,
		Assumptions: spec.Assumptions, WallS: time.Since(start).Seconds(), Violations: len(sigSeen)}
	os.MkdirAll(filepath.Join(verifDir, "evidence"), 0o755)
	eb, _ := json.MarshalIndent(ev, "", " ")
	os.WriteFile(filepath.Join(verifDir, "evidence", prop+".json"), eb, 0o644)
	fmt.Printf("%s %s: states=%d transitions=%d validated_on_plain=%d nontrivial=%d outcomes=%d failing=%d known=%d exhaustive=%v wall=%.1fs\n",
		prop, tier, agg.states, agg.cases, validated, agg.nontrivial, agg.outcomes, agg.violCount, len(printedKnown), agg.exhaustive, time.Since(start).Seconds())
	return exit
}

// raceSite extracts the first frame inside robfig/soy from a race report.
func raceSite(report string) string {
	for _, l := range strings.Split(report, "\n") {
		l = strings.TrimSpace(l)
		if strings.HasPrefix(l, "github.com/robfig/soy/") {
			if i := strings.IndexByte(l, '('); i > 0 {
				l = l[:i]
			}
			return strings.TrimPrefix(l, "github.com/robfig/soy/")
		}
	}
	return "?"
}

func firstLine(s string) string {
	if i := strings.IndexByte(s, '\n'); i >= 0 {
		return s[:i]
	}
	return s
}

func compactFull(v any) string {
	b, _ := json.Marshal(v)
	return string(b)
}

func compact(v any) string {
	b, _ := json.Marshal(v)
	if len(b) > 300 {
		return string(b[:300]) + "…"
	}
	return string(b)
}

type agg struct {
	prop       string
	cases      int64
	states     int64
	nontrivial int64
	outcomes   int64
	obsHash    uint64
	obsCount   int64
	viol       []proto.Violation
	violCount  int64
	sigCounts  map[string]int64
	samples    []any
	exhaustive bool
	caps       []string
	counters   map[string]int64
	maxima     map[string]int64
	notes      map[string]string
	infra      string
}

func newAgg(prop string) *agg {
	return &agg{prop: prop, exhaustive: true, sigCounts: map[string]int64{}, counters: map[string]int64{}, maxima: map[string]int64{}, notes: map[string]string{}}
}

func (a *agg) add(r *proto.Result) {
	a.cases += r.Cases
	a.states += r.States
	a.nontrivial += r.Nontrivial
	a.outcomes += r.Outcomes
	a.obsHash += r.ObsHash
	a.obsCount += r.ObsCount
	a.viol = append(a.viol, r.Violations...)
	a.violCount += r.ViolCount
	for k, v := range r.SigCounts {
		a.sigCounts[k] += v
	}
	if len(a.samples) < 8 {
		for _, s := range r.Samples {
			if len(a.samples) < 8 {
				a.samples = append(a.samples, s)
			}
		}
	}
	if !r.Exhaustive {
		a.exhaustive = false
	}
	a.caps = append(a.caps, r.Caps...)
	for k, v := range r.Counters {
		a.counters[k] += v
	}
	for k, v := range r.Maxima {
		if v > a.maxima[k] {
			a.maxima[k] = v
		}
	}
	for k, v := range r.Notes {
		a.notes[k] = v
	}
	if r.InfraError != "" && a.infra == "" {
		a.infra = r.InfraError
	}
}
