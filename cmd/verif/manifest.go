package main

import (
	"encoding/json"
	"fmt"
	"os"
	"sort"
)

// writeManifest regenerates MANIFEST.json from the spec table.
func writeManifest() {
	type level struct {
		Category  string `json:"category"`
		Text      string `json:"text"`
		DesignRef string `json:"design_ref"`
	}
	type chk struct {
		PropertyID  string `json:"property_id"`
		QuickCmd    string `json:"quick_cmd"`
		ThoroughCmd string `json:"thorough_cmd"`
		Evidence    string `json:"evidence_file"`
		Replay      string `json:"replay_cmd_template"`
		Engine      string `json:"engine"`
		Level       level  `json:"level_claimed"`
		LevelNote   string `json:"level_note"`
		Technique   string `json:"technique"`
	}
	var ids []string
	for id := range specs {
		ids = append(ids, id)
	}
	sort.Strings(ids)
	var checks []chk
	for _, id := range ids {
		s := specs[id]
		checks = append(checks, chk{
			PropertyID:  id,
			QuickCmd:    "bin/verif check " + id + " --tier quick",
			ThoroughCmd: "bin/verif check " + id + " --tier thorough",
			Evidence:    "/verif/evidence/" + id + ".json",
			Replay:      "bin/verif replay {path}",
			Engine:      "verif-explorer",
			Level:       level{s.Level, s.LevelText, "DESIGN.md §5 " + id},
			LevelNote:   s.LevelNote,
			Technique:   s.Technique,
		})
	}
	type na struct {
		PropertyID string `json:"property_id"`
		Reason     string `json:"reason"`
	}
	nas := []na{}
	for i := 1; i <= 20; i++ {
		id := fmt.Sprintf("C%02d", i)
		if _, ok := specs[id]; !ok {
			nas = append(nas, na{id, notApplicable[id]})
		}
	}
	m := map[string]any{
		"version":   1,
		"setup_cmd": "export GOFLAGS=-mod=mod GOPROXY=off GOSUMDB=off GOTOOLCHAIN=local && cd /verif && mkdir -p bin && go build -o bin/verif ./cmd/verif && bin/verif setup",
		"hooks": map[string]any{
			"guard":            "verif",
			"enable":           "go build -tags verif -overlay /verif/.build/<key>/overlay.json (generated from /repo's current working tree by bin/verif; no hook code is committed to /repo)",
			"baseline_off_cmd": "cd /repo && GOFLAGS=-mod=mod GOPROXY=off GOSUMDB=off GOTOOLCHAIN=local go test -json -vet=off -count=1 -timeout 25m ./...",
			"source_commits":   []string{},
			"add_only":         true,
		},
		"engines": []map[string]any{{
			"name": "verif-explorer", "path": "/verif/cmd/verif, /verif/harness, /verif/vrt, /verif/internal/instr",
			"serves_properties": ids,
			"kind_free_text":    "hand-written stateless explorer for Go: overlay instrumenter (fuel ticks, goroutine/channel shims, map-order choice points, package-variable registry), cooperative controlled scheduler, DFS over choice sequences with deviation bounds, bounded-exhaustive term generators, reference models, plain-build replay of every explored case",
		}},
		"checks":         checks,
		"not_applicable": nas,
		"notes":          "All checks rebuild from /repo's working tree (content-hash build cache under /verif/.build). Exit 0 = property held on everything explored (KNOWN-FINDING lines for listed findings); exit 1 + VIOLATION line otherwise; exit 2 = infrastructure error, not a verdict.",
	}
	b, _ := json.MarshalIndent(m, "", " ")
	os.WriteFile(verifDir+"/MANIFEST.json", append(b, '\n'), 0o644)
}

// notApplicable holds the reason for every property that is not (yet) claimed.
var notApplicable = map[string]string{}

func init() {
	for i := 1; i <= 20; i++ {
		notApplicable[fmt.Sprintf("C%02d", i)] = "check not built yet in this revision of /verif (planned: bounded exhaustive exploration, see DESIGN.md §5); not claimed until it runs clean"
	}
}
