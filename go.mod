module verif

go 1.23

require (
	github.com/robertkrimen/otto v0.0.0-20191219234010-c382bd3c16ff
	github.com/robfig/gettext v0.0.0-20200526193151-a093425df149
	github.com/robfig/soy v0.0.0-00010101000000-000000000000
	golang.org/x/tools v0.29.0
)

require (
	github.com/fsnotify/fsnotify v1.4.9 // indirect
	golang.org/x/mod v0.22.0 // indirect
	golang.org/x/sync v0.10.0 // indirect
	golang.org/x/sys v0.29.0 // indirect
	golang.org/x/text v0.3.8 // indirect
	gopkg.in/sourcemap.v1 v1.0.5 // indirect
)

replace github.com/robfig/soy => /repo
